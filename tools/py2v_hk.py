"""py2v_hk: fail-closed translator of the Horvath-Kawazoe code of pyGAPS into Gallina  ->  coq/Gen/HkGen.v

Input (Python AST of the CURRENT source):
  characterisation/models_hk.py : HK_KEYS, the PROPERTIES_* dictionaries, _ADSORBENT_MODELS
  characterisation/psd_micro.py : _N_over_RT, _kirkwood_muller_dispersion_ads/_mat, _dispersion_from_dict,
        psd_horvath_kawazoe and psd_horvath_kawazoe_ry (constants prelude; the SLIT potential closure; for every geometry
        the solver call (lower bound, geo) and the width post-processing; the distribution tail),
        _solve_hk / _solve_hk_cy (objective, bounds, p_w_max, coverage, Cheng-Yang correction; the loop shape is matched)
        psd_microporous: the model-name dispatch (evaluated concretely per accepted name); every assignment to `adsorbate_model` with the
        tests it sits under and the source of each key (psd_microporous_adsorbate_model); the census of process-wide state of the
        module - writes of any function to module-level names / function attributes / arguments, memoising decorators
        (psd_micro_module_writes; `module_state` is reused by py2v_psdmeso.py)
Output: a Section over a carrier N : Num (RNum for theorems, QNum for exact execution) + an R-only part for exp/ln,
        every definition with its definedness predicate `<name>_def` (all denominators <> 0, equal array lengths).
        scipy.constants.X is inlined as the exact rational of the float scipy provides.

Subset: straight-line scalar code (Assign to a local / tuple of locals, Return), + - * / unary -, `**` with a literal natural
exponent, dict subscripts with literal keys on the two property dictionaries, scipy constants, calls to translated sibling
functions, nested closures `def f(x): return e` / `if a < b: return e1 else: return e2`; array expressions made of
numpy.asarray, numpy.add, numpy.diff, x[:-1], x[1:], x[slice(0, len(y))], element-wise + - * /.
The cylinder / sphere potentials (series, loops) are NOT translated (validated numerically by the check); statements that only
validate arguments are matched textually. Anything else aborts with file:line (exit 1); vlib.regen then leaves a stub that
does not compile, so every obligation depending on the model is reported broken.

Usage: py2v_hk.py <repo_src_dir> <out_dir>
"""
import ast
import os
import sys
from fractions import Fraction


class Unsupported(Exception):
    pass


def bail(fn, node, msg):
    raise Unsupported('%s:%s: unsupported by py2v_hk: %s' % (fn, getattr(node, 'lineno', '?'), msg))


def q(x):
    fr = Fraction(x)
    return '(%d # %d)' % (fr.numerator, fr.denominator)


def nq(x):
    return '(@nofQ N %s)' % q(x)


OPS = {ast.Add: 'nadd', ast.Sub: 'nsub', ast.Mult: 'nmul', ast.Div: 'ndiv'}
DICTS = {'adsorbate_properties': 'a_', 'material_properties': 'm_', 'ads_dict': 'a_', 'mat_dict': 'm_'}
DICT_TY = {'a_': 'hkads', 'm_': 'hkmat'}


class Ctx:
    """translation context of one function: scalar locals, array locals, local closures, definedness conditions"""

    def __init__(self, fn, T):
        self.fn, self.T = fn, T
        self.sc = set()
        self.arr = set()
        self.clos = {}       # local closure name -> arity
        self.slices = {}     # name -> array name (slice(0, len(name)))
        self.lets = []       # (pattern, term)
        self.conds = []      # (number of lets in scope, cond text)

    def let(self, pat, term):
        self.lets.append((pat, term))

    def cond(self, c):
        self.conds.append((len(self.lets), c))

    def wrap(self, body, upto=None):
        ls = self.lets if upto is None else self.lets[:upto]
        return ''.join(' let %s := %s in\n' % (p, t) for p, t in ls) + ' ' + body

    def defined(self, extra=()):
        """Prop: every recorded condition, each under the lets in scope at its point"""
        # nest: conditions sorted by position; build from the inside out
        items = sorted(self.conds, key=lambda x: x[0])
        items += [(len(self.lets), c) for c in extra]
        out = 'True'
        pos = len(self.lets)
        for k, c in reversed(items):
            # close the lets between k and pos around `out`
            out = ''.join('let %s := %s in ' % (p, t) for p, t in self.lets[k:pos]) + out
            out = '(%s) /\\ (%s)' % (c, out) if out != 'True' else '(%s)' % c
            pos = k
        out = ''.join(' let %s := %s in\n' % (p, t) for p, t in self.lets[:pos]) + ' ' + out
        return out


class Translator:
    def __init__(self, src):
        self.src = src
        self.consts = {}      # scipy constant name -> float
        self.funs = {}        # python function name -> (coq name, n args, has_def)
        self.out = []         # generic section text
        self.rout = []        # R-only text

    # ---------------------------------------------------------------- scalar expressions
    def E(self, e, c):
        fn = c.fn
        if isinstance(e, ast.Constant):
            if isinstance(e.value, bool) or not isinstance(e.value, (int, float)):
                bail(fn, e, 'constant %r' % (e.value,))
            return nq(e.value)
        if isinstance(e, ast.Name):
            if e.id in c.sc:
                return e.id
            bail(fn, e, 'name %s is not a translated scalar local' % e.id)
        if isinstance(e, ast.UnaryOp) and isinstance(e.op, ast.USub):
            return '(nopp %s)' % self.E(e.operand, c)
        if isinstance(e, ast.BinOp):
            if type(e.op) in OPS:
                a, b = self.E(e.left, c), self.E(e.right, c)
                if isinstance(e.op, ast.Div):
                    c.cond('%s <> @nofQ N (0 # 1)' % b)
                return '(%s %s %s)' % (OPS[type(e.op)], a, b)
            if isinstance(e.op, ast.Pow):
                if isinstance(e.right, ast.Constant) and type(e.right.value) is int and 0 <= e.right.value <= 64:
                    return '(npow %s %d)' % (self.E(e.left, c), e.right.value)
                bail(fn, e, 'power with a non-literal or negative exponent')
            bail(fn, e, 'operator ' + type(e.op).__name__)
        if isinstance(e, ast.Subscript):
            if isinstance(e.value, ast.Name) and e.value.id in DICTS and isinstance(e.slice, ast.Constant) and isinstance(e.slice.value, str):
                pre = DICTS[e.value.id]
                keys = self.T['ads_keys'] if pre == 'a_' else self.T['mat_keys']
                if e.slice.value not in keys:
                    bail(fn, e, 'key %r is not a declared key of %s' % (e.slice.value, e.value.id))
                return '(%s%s %s)' % (pre, e.slice.value, e.value.id)
            bail(fn, e, 'subscript ' + ast.unparse(e))
        if isinstance(e, ast.Attribute):
            if isinstance(e.value, ast.Name) and e.value.id == 'constants':
                from scipy import constants
                if not hasattr(constants, e.attr) or not isinstance(getattr(constants, e.attr), float):
                    bail(fn, e, 'scipy.constants.%s is not a float' % e.attr)
                self.consts[e.attr] = getattr(constants, e.attr)
                return '(@nofQ N const_%s)' % e.attr
            bail(fn, e, 'attribute ' + ast.unparse(e))
        if isinstance(e, ast.Call):
            if e.keywords:
                bail(fn, e, 'keyword arguments')
            if isinstance(e.func, ast.Name) and e.func.id in c.clos:
                if len(e.args) != c.clos[e.func.id]:
                    bail(fn, e, 'arity')
                args = ' '.join(self.E(a, c) for a in e.args)
                c.cond('%s_def %s' % (e.func.id, args))
                return '(%s %s)' % (e.func.id, args)
            if isinstance(e.func, ast.Name) and e.func.id in self.funs:
                cn, n = self.funs[e.func.id]
                if len(e.args) != n:
                    bail(fn, e, 'arity')
                args = ' '.join(self.Earg(a, c) for a in e.args)
                c.cond('%s_def %s' % (cn, args))
                return '(%s %s)' % (cn, args)
            bail(fn, e, 'call ' + ast.unparse(e.func))
        bail(fn, e, 'expression ' + type(e).__name__)

    def Earg(self, a, c):
        if isinstance(a, ast.Name) and a.id in DICTS:
            return a.id
        return self.E(a, c)

    # ---------------------------------------------------------------- statements of a scalar block
    def stmt(self, s, c):
        """Assign / closure definition inside a scalar block; returns False when not handled"""
        if isinstance(s, ast.Assign) and len(s.targets) == 1:
            t = s.targets[0]
            if isinstance(t, ast.Name):
                term = self.E(s.value, c)
                c.let(t.id, term)
                c.sc.add(t.id)
                return True
            if isinstance(t, ast.Tuple) and all(isinstance(x, ast.Name) for x in t.elts):
                term = self.E(s.value, c)
                c.let("'(%s)" % ', '.join(x.id for x in t.elts), term)
                for x in t.elts:
                    c.sc.add(x.id)
                return True
        if isinstance(s, ast.FunctionDef):
            self.closure(s, c)
            return True
        return False

    def closure(self, fd, c):
        """def f(x...): [docstring] return e   |   v = e; if a < b: return e1 else: return e2"""
        if fd.decorator_list or fd.args.defaults or fd.args.vararg or fd.args.kwarg or fd.args.kwonlyargs:
            bail(c.fn, fd, 'closure signature')
        params = [a.arg for a in fd.args.args]
        sub = Ctx(c.fn, c.T)
        sub.sc = set(c.sc) | set(params)
        sub.clos = dict(c.clos)
        body = strip_doc(fd.body)
        term = self.block_value(body, sub, fd)
        ps = ' '.join('(%s : N)' % p for p in params)
        c.let(fd.name, '(fun %s =>\n%s)' % (ps, sub.wrap(term)))
        c.let(fd.name + '_def', '(fun %s =>\n%s)' % (ps, sub.defined_with_branches()))
        c.clos[fd.name] = len(params)

    def block_value(self, body, sub, where):
        """straight-line lets followed by Return e or by If(test) Return / else Return"""
        for i, s in enumerate(body):
            if isinstance(s, ast.Return) and i == len(body) - 1 and s.value is not None:
                sub.branches = None
                return self.E(s.value, sub)
            if isinstance(s, ast.If) and i == len(body) - 1:
                if not (isinstance(s.test, ast.Compare) and len(s.test.ops) == 1 and isinstance(s.test.ops[0], ast.Lt)
                        and len(s.body) == 1 and isinstance(s.body[0], ast.Return) and len(s.orelse) == 1
                        and isinstance(s.orelse[0], ast.Return)):
                    bail(sub.fn, s, 'if statement in a closure (only `if a < b: return e1 else: return e2`)')
                a = self.E(s.test.left, sub)
                b = self.E(s.test.comparators[0], sub)
                n0 = len(sub.conds)
                t1 = self.E(s.body[0].value, sub)
                n1 = len(sub.conds)
                t2 = self.E(s.orelse[0].value, sub)
                c1 = [x[1] for x in sub.conds[n0:n1]]
                c2 = [x[1] for x in sub.conds[n1:]]
                del sub.conds[n0:]
                test = '(nltb %s %s)' % (a, b)
                sub.branches = (test, c1, c2)
                return '(if %s then %s else %s)' % (test, t1, t2)
            if not self.stmt(s, sub):
                bail(sub.fn, s, 'statement in a closure: ' + ast.unparse(s).split('\n')[0])
        bail(sub.fn, where, 'closure without a final return')

    # ---------------------------------------------------------------- array expressions
    def A(self, e, c):
        """-> (term, 'arr'|'sc'); records length / non-zero conditions"""
        fn = c.fn
        if isinstance(e, ast.Name) and e.id in c.arr:
            return e.id, 'arr'
        if isinstance(e, ast.Call) and not e.keywords:
            f = ast.unparse(e.func)
            if f == 'numpy.asarray' and len(e.args) == 1:
                return self.A(e.args[0], c)
            if f == 'numpy.add' and len(e.args) == 2:
                (a, ka), (b, kb) = self.A(e.args[0], c), self.A(e.args[1], c)
                if ka == kb == 'arr':
                    c.cond('length %s = length %s' % (a, b))
                    return '(amap2 nadd %s %s)' % (a, b), 'arr'
                bail(fn, e, 'numpy.add of non-arrays')
            if f == 'numpy.diff' and len(e.args) == 1:
                a, k = self.A(e.args[0], c)
                if k != 'arr':
                    bail(fn, e, 'numpy.diff of a scalar')
                return '(adiff %s)' % a, 'arr'
        if isinstance(e, ast.Subscript) and not (isinstance(e.value, ast.Name) and e.value.id in DICTS):
            a, k = self.A(e.value, c)
            if k != 'arr':
                bail(fn, e, 'subscript of a scalar')
            s = e.slice
            if isinstance(s, ast.Slice) and s.step is None:
                if s.lower is None and isinstance(s.upper, ast.UnaryOp) and isinstance(s.upper.op, ast.USub) \
                        and isinstance(s.upper.operand, ast.Constant) and s.upper.operand.value == 1:
                    return '(but_last %s)' % a, 'arr'
                if s.upper is None and isinstance(s.lower, ast.Constant) and s.lower.value == 1:
                    return '(from_1 %s)' % a, 'arr'
            if isinstance(s, ast.Name) and s.id in c.slices:
                return '(upto (length %s) %s)' % (c.slices[s.id], a), 'arr'
            bail(fn, e, 'array subscript ' + ast.unparse(e))
        if isinstance(e, ast.BinOp) and type(e.op) in OPS:
            (a, ka), (b, kb) = self.A(e.left, c), self.A(e.right, c)
            op = OPS[type(e.op)]
            if ka == kb == 'arr':
                c.cond('length %s = length %s' % (a, b))
                if op == 'ndiv':
                    c.cond('Forall (fun x_ => x_ <> @nofQ N (0 # 1)) %s' % b)
                return '(amap2 %s %s %s)' % (op, a, b), 'arr'
            if ka == 'arr':
                if op == 'ndiv':
                    c.cond('%s <> @nofQ N (0 # 1)' % b)
                return '(map (fun x_ => %s x_ %s) %s)' % (op, b, a), 'arr'
            if kb == 'arr':
                if op == 'ndiv':
                    c.cond('Forall (fun x_ => x_ <> @nofQ N (0 # 1)) %s' % b)
                return '(map (fun x_ => %s %s x_) %s)' % (op, a, b), 'arr'
            if op == 'ndiv':
                c.cond('%s <> @nofQ N (0 # 1)' % b)
            return '(%s %s %s)' % (op, a, b), 'sc'
        return self.E(e, c), 'sc'


def defined_with_branches(self):
    if getattr(self, 'branches', None):
        test, c1, c2 = self.branches
        j = lambda cs: ' /\\ '.join('(%s)' % x for x in cs) if cs else 'True'
        return self.defined(extra=['if %s then %s else %s' % (test, j(c1), j(c2))])
    return self.defined()


Ctx.defined_with_branches = defined_with_branches


def strip_doc(body):
    if body and isinstance(body[0], ast.Expr) and isinstance(body[0].value, ast.Constant) and isinstance(body[0].value.value, str):
        return body[1:]
    return body


def find_fun(tree, name, fn):
    for n in tree.body:
        if isinstance(n, ast.FunctionDef) and n.name == name:
            return n
    raise Unsupported('%s: function %s not found' % (fn, name))


# ---------------------------------------------------------------- models_hk.py
def tables(src):
    fn = os.path.join(src, 'pygaps/characterisation/models_hk.py')
    tree = ast.parse(open(fn).read())
    dicts = {}
    for n in tree.body:
        if isinstance(n, ast.Assign) and len(n.targets) == 1 and isinstance(n.targets[0], ast.Name) and isinstance(n.value, ast.Dict):
            name = n.targets[0].id
            d = {}
            for k, v in zip(n.value.keys, n.value.values):
                if not (isinstance(k, ast.Constant) and isinstance(k.value, str)):
                    bail(fn, n, 'dictionary key in ' + name)
                if isinstance(v, ast.Constant) and isinstance(v.value, (int, float, str)) and not isinstance(v.value, bool):
                    d[k.value] = v.value
                elif isinstance(v, ast.Name):
                    d[k.value] = ('ref', v.id)
                else:
                    bail(fn, v, 'dictionary value in ' + name)
            dicts[name] = d
    for need in ('HK_KEYS', '_ADSORBENT_MODELS'):
        if need not in dicts:
            raise Unsupported('%s: %s not found' % (fn, need))
    # get_hk_model must still be "string -> _ADSORBENT_MODELS[model], dict -> the dict itself when it has all HK_KEYS"
    g = find_fun(tree, 'get_hk_model', fn)
    text = '\n'.join(ast.unparse(s) for s in strip_doc(g.body))
    want = ("if isinstance(model, str):\n    if model not in _ADSORBENT_MODELS:\n        raise ParameterError(",
            "    return _ADSORBENT_MODELS[model]\nif isinstance(model, dict):\n    for key in HK_KEYS.items():\n"
            "        if key[0] not in model.keys():\n            raise ParameterError(",
            "    return model\nraise ParameterError(")
    pos = 0
    for w in want:
        k = text.find(w, pos)
        if k < 0:
            bail(fn, g, 'get_hk_model no longer has the recognised shape (missing: %r)' % w[:60])
        pos = k + len(w)
    return fn, dicts


# ---------------------------------------------------------------- psd_micro.py
CHECK_TEXTS = [
    "missing = [x for x in HK_KEYS if x not in material_properties]",
    "if missing:\n    raise ParameterError(",
    "if len(pressure) == 0:\n    raise ParameterError('Empty input values!')",
    "if len(pressure) != len(loading):\n    raise ParameterError('The length of the pressure and loading arrays do not match.')",
    "pressure = numpy.asarray(pressure)", "loading = numpy.asarray(loading)", "pore_widths = []",
]
ADS_MISSING = "missing = [x for x in list(HK_KEYS.keys()) + "
TAIL_CUT = ["selected = slice(0, len(pore_widths))", "pore_widths = pore_widths[selected]", "pressure = pressure[selected]",
            "loading = loading[selected]"]


def hk_function(tr, tree, fn, pyname, prefix, T):
    fd = find_fun(tree, pyname, fn)
    params = [a.arg for a in fd.args.args]
    if params != ['pressure', 'loading', 'temperature', 'pore_geometry', 'adsorbate_properties', 'material_properties', 'use_cy']:
        bail(fn, fd, 'signature of ' + pyname)
    body = strip_doc(fd.body)
    c = Ctx(fn, T)
    c.sc = {'temperature'}
    geo = {}
    tail = None
    i = 0
    while i < len(body):
        s = body[i]
        text = ast.unparse(s)
        if any(text == t or (t.endswith('(') and text.startswith(t)) for t in CHECK_TEXTS):
            i += 1
            continue
        if text.startswith(ADS_MISSING):
            # the list of extra adsorbate keys
            lst = s.value.elt if False else None
            comp = s.value
            try:
                extra = [x.value for x in comp.generators[0].iter.right.elts]
            except Exception:
                bail(fn, s, 'adsorbate key check')
            if T['ads_keys'] != T['mat_keys'] + extra:
                bail(fn, s, 'adsorbate keys differ between functions')
            i += 1
            continue
        if isinstance(s, ast.If) and isinstance(s.test, ast.Compare) and ast.unparse(s.test.left) == 'pore_geometry':
            node = s
            while True:
                if not (len(node.test.ops) == 1 and isinstance(node.test.ops[0], ast.Eq) and isinstance(node.test.comparators[0], ast.Constant)):
                    bail(fn, node, 'geometry test')
                g = node.test.comparators[0].value
                geo[g] = geometry(tr, node.body, c, fn, g, prefix, translate_potential=(g == 'slit'))
                if len(node.orelse) == 1 and isinstance(node.orelse[0], ast.If) and ast.unparse(node.orelse[0].test.left) == 'pore_geometry':
                    node = node.orelse[0]
                    continue
                if node.orelse:
                    bail(fn, node.orelse[0], 'else branch of the geometry chain')
                break
            tail = body[i + 1:]
            break
        if not tr.stmt(s, c):
            bail(fn, s, 'statement ' + text.split('\n')[0])
        i += 1
    if tail is None or set(geo) != {'slit', 'cylinder', 'sphere'}:
        bail(fn, fd, 'geometry chain slit/cylinder/sphere not found')
    # ---- tail
    tc = Ctx(fn, T)
    tc.arr = {'pore_widths', 'pressure', 'loading'}
    ret = None
    for s in tail:
        text = ast.unparse(s)
        if text == TAIL_CUT[0]:
            tc.slices['selected'] = 'pore_widths'
            continue
        if isinstance(s, ast.Assign) and len(s.targets) == 1 and isinstance(s.targets[0], ast.Name):
            name = s.targets[0].id
            term, k = tr.A(s.value, tc)
            tc.let(name, term)
            (tc.arr if k == 'arr' else tc.sc).add(name)
            if k == 'sc':
                tc.arr.discard(name)
            continue
        if isinstance(s, ast.Return) and isinstance(s.value, ast.Tuple) and len(s.value.elts) == 3:
            parts = [tr.A(x, tc) for x in s.value.elts]
            if any(k != 'arr' for _, k in parts):
                bail(fn, s, 'returned values are not arrays')
            ret = '(%s, %s, %s)' % tuple(p for p, _ in parts)
            continue
        bail(fn, s, 'tail statement ' + text.split('\n')[0])
    if ret is None:
        bail(fn, fd, 'no return')
    sig = '(adsorbate_properties : hkads) (pore_widths pressure loading : list N)'
    tr.out.append('(* %s: everything after the geometry chain *)\nDefinition %s_tail %s : list N * list N * list N :=\n%s.\n'
                  % (pyname, prefix, sig, tc.wrap(ret)))
    tr.out.append('Definition %s_tail_def %s : Prop :=\n%s.\n' % (prefix, sig, tc.defined()))
    return geo


def geometry(tr, body, c0, fn, g, prefix, translate_potential):
    """one branch of the geometry chain: [scalar lets, closures], solver call, width post-processing"""
    c = Ctx(fn, c0.T)
    c.sc, c.lets, c.conds, c.clos = set(c0.sc), list(c0.lets), list(c0.conds), dict(c0.clos)
    solve = post = None
    nlets_before_solve = None
    for s in body:
        text = ast.unparse(s)
        if isinstance(s, ast.If) and ast.unparse(s.test) == 'use_cy':
            if not (len(s.body) == 1 and len(s.orelse) == 1):
                bail(fn, s, 'solver call')
            a, b = s.body[0], s.orelse[0]
            ca, cb = a.value, b.value
            if not (isinstance(a, ast.Assign) and isinstance(b, ast.Assign) and ast.unparse(a.targets[0]) == 'pore_widths'
                    and ast.unparse(b.targets[0]) == 'pore_widths' and isinstance(ca, ast.Call) and isinstance(cb, ast.Call)
                    and ast.unparse(ca.func) == '_solve_hk_cy' and ast.unparse(cb.func) == '_solve_hk'
                    and [ast.unparse(x) for x in ca.args[:3]] == ['pressure', 'loading', 'potential']
                    and [ast.unparse(x) for x in cb.args[:2]] == ['pressure', 'potential']
                    and len(ca.args) == 5 and len(cb.args) == 4 and not ca.keywords and not cb.keywords
                    and ast.unparse(ca.args[3]) == ast.unparse(cb.args[2]) and ast.unparse(ca.args[4]) == ast.unparse(cb.args[3])):
                bail(fn, s, 'solver call is not `_solve_hk_cy(pressure, loading, potential, B, G)` / `_solve_hk(pressure, potential, B, G)`')
            solve = (cb.args[2], cb.args[3])
            continue
        if solve is not None:
            if isinstance(s, ast.Assign) and ast.unparse(s.targets[0]) == 'pore_widths' and post is None:
                post = s.value
                continue
            bail(fn, s, 'statement after the solver call')
        if translate_potential:
            if not tr.stmt(s, c):
                bail(fn, s, 'statement ' + text.split('\n')[0])
    if solve is None or post is None:
        bail(fn, body[0], 'geometry %s: solver call / post-processing not found' % g)
    sig = '(temperature : N) (adsorbate_properties : hkads) (material_properties : hkmat)'
    name = '%s_%s' % (prefix, g)
    if translate_potential:
        if 'potential' not in c.clos or c.clos['potential'] != 1:
            bail(fn, body[0], 'closure potential(l_pore) not found')
        tr.out.append('(* the closure `potential` of the %s branch *)\nDefinition %s_potential %s (l_pore : N) : N :=\n%s.\n'
                      % (g, name, sig, c.wrap('potential l_pore')))
        tr.out.append('Definition %s_potential_def %s (l_pore : N) : Prop :=\n%s.\n'
                      % (name, sig, c.defined(extra=['potential_def l_pore'])))
    # bound, geo, post use the prelude only (c0) unless the branch was translated
    cc = c0
    b = Ctx(fn, c0.T)
    b.sc, b.lets, b.conds = set(cc.sc), list(cc.lets), list(cc.conds)
    tr.out.append('Definition %s_bound %s : N :=\n%s.\n' % (name, sig, b.wrap(tr.E(solve[0], b))))
    tr.out.append('Definition %s_geo : N := %s.\n' % (name, tr.E(solve[1], Ctx(fn, c0.T))))
    p = Ctx(fn, c0.T)
    p.sc, p.lets, p.conds = set(cc.sc) | {'w_'}, list(cc.lets), list(cc.conds)
    p.arr = set()
    # numpy.asarray(pore_widths) is the list of solved widths; the expression is element-wise in it
    pe = ast.parse(ast.unparse(post).replace('numpy.asarray(pore_widths)', 'w_'), mode='eval').body
    if 'pore_widths' in ast.unparse(pe):
        bail(fn, post, 'post-processing is not element-wise in numpy.asarray(pore_widths)')
    tr.out.append('Definition %s_post %s (w_ : N) : N :=\n%s.\n' % (name, sig, p.wrap(tr.E(pe, p))))
    tr.out.append('Definition %s_prelude_def %s : Prop :=\n%s.\n' % (name, sig, b.defined()))
    return True


SOLVE_HK = """p_w = []
p_w_max = 10 / geo
for p_point in pressure:

    def fun(l_pore):
        return (numpy.exp(hk_fun(l_pore)) - p_point) ** 2
    res = optimize.minimize_scalar(fun, method='bounded', bounds=(bound, 50))
    p_w.append(res.x)
    if res.x > p_w_max:
        break
return p_w"""
SOLVE_HK_CY = """p_w = []
p_w_max = 10 / geo
coverage = loading / (max(loading) * 1.01)
for (p_point, c_point) in zip(pressure, coverage):
    sf_corr = 1 + 1 / c_point * numpy.log(1 - c_point)

    def fun(l_pore):
        return (numpy.exp(hk_fun(l_pore) - sf_corr) - p_point) ** 2
    res = optimize.minimize_scalar(fun, method='bounded', bounds=(bound, 50))
    p_w.append(res.x)
    if res.x > p_w_max:
        break
return p_w"""


def solver_shape(tree, fn):
    """_solve_hk / _solve_hk_cy are matched as whole idioms (loop over the points, scalar bounded minimisation of the squared
    residual, stop after the first width above p_w_max); their Coq reading is fixed text below."""
    for name, want, params in (('_solve_hk', SOLVE_HK, ['pressure', 'hk_fun', 'bound', 'geo']),
                               ('_solve_hk_cy', SOLVE_HK_CY, ['pressure', 'loading', 'hk_fun', 'bound', 'geo'])):
        fd = find_fun(tree, name, fn)
        if [a.arg for a in fd.args.args] != params:
            bail(fn, fd, 'signature of ' + name)
        got = '\n'.join(ast.unparse(s) for s in strip_doc(fd.body))
        want = ast.unparse(ast.parse(want))      # normalise the expected text with the running interpreter's printer
        if got != want:
            import difflib
            d = [l for l in difflib.unified_diff(want.split('\n'), got.split('\n'), lineterm='', n=0) if not l.startswith(('---', '+++', '@@'))]
            bail(fn, fd, '%s no longer has the recognised shape: %s' % (name, ' | '.join(d)[:400]))


SOLVER_COQ = """
(* _solve_hk / _solve_hk_cy (matched as idioms by the translator): numbers the loops compute around the minimiser *)
Definition solve_hk_p_w_max (geo : N) : N := ndiv (@nofQ N (10 # 1)) geo.
Definition solve_hk_upper : N := @nofQ N (50 # 1).
Definition solve_hk_cy_coverage (max_loading : N) (l : N) : N := ndiv l (nmul max_loading (@nofQ N (101 # 100) )).
"""
SOLVER_COQ_R = """
(* objective handed to optimize.minimize_scalar(method='bounded', bounds=(bound, 50)) *)
Definition solve_hk_objective (hk_fun : R -> R) (p_point l_pore : R) : R := (exp (hk_fun l_pore) - p_point) ^ 2.
Definition solve_hk_cy_sf_corr (c_point : R) : R := 1 + 1 / c_point * ln (1 - c_point).
Definition solve_hk_cy_sf_corr_def (c_point : R) : Prop := c_point <> 0 /\\ 0 < 1 - c_point.
Definition solve_hk_cy_objective (hk_fun : R -> R) (sf_corr p_point l_pore : R) : R := (exp (hk_fun l_pore - sf_corr) - p_point) ^ 2.
"""


# ---------------------------------------------------------------- Rege-Yang cylinder: layer count, layer populations, weighted average
RY_CYL_RETURN = 'return N_over_RT * numpy.sum(layer_populations * layer_potentials) / numpy.sum(layer_populations)'
RY_CYL_NAMES = ('d_ads', 'd_eff', 'd_mat', 'l_pore', 'layer', 'width')


def r_expr(e, fn, allowed):
    """arithmetic over the reals: + - * /, integer literals, names, constants.pi, math.asin"""
    if isinstance(e, ast.BinOp) and type(e.op) in (ast.Add, ast.Sub, ast.Mult, ast.Div):
        return '(%s %s %s)' % (r_expr(e.left, fn, allowed), {ast.Add: '+', ast.Sub: '-', ast.Mult: '*', ast.Div: '/'}[type(e.op)], r_expr(e.right, fn, allowed))
    if isinstance(e, ast.Constant) and type(e.value) is int and e.value >= 0:
        return str(e.value)
    if isinstance(e, ast.Name) and e.id in allowed:
        return e.id
    if ast.unparse(e) == 'constants.pi':
        return 'PI'
    if isinstance(e, ast.Call) and ast.unparse(e.func) == 'math.asin' and len(e.args) == 1 and not e.keywords:
        return '(asin %s)' % r_expr(e.args[0], fn, allowed)
    bail(fn, e, 'expression not understood in the Rege-Yang cylinder layer rule: ' + ast.unparse(e))


def ry_cylinder_layers(tree, fn):
    """psd_horvath_kawazoe_ry, cylinder branch, closure potential(l_pore): the number of concentric layers, the population of layer
    `layer` (one assignment of `width`, one two-armed `if` assigning `layer_population`) and the population-weighted average."""
    fd = find_fun(tree, 'psd_horvath_kawazoe_ry', fn)
    branch = None
    for n in ast.walk(fd):
        if (isinstance(n, ast.If) and isinstance(n.test, ast.Compare) and ast.unparse(n.test) == "pore_geometry == 'cylinder'"):
            if branch is not None:
                bail(fn, n, 'two cylinder branches')
            branch = n
    if branch is None:
        bail(fn, fd, 'cylinder branch of psd_horvath_kawazoe_ry not found')
    pots = [s for s in branch.body if isinstance(s, ast.FunctionDef) and s.name == 'potential']
    if len(pots) != 1 or [a.arg for a in pots[0].args.args] != ['l_pore']:
        bail(fn, branch, 'closure potential(l_pore) of the cylinder branch')
    body = strip_doc(pots[0].body)
    loops = [s for s in body if isinstance(s, ast.For)]
    counts = [s for s in body if isinstance(s, ast.Assign) and ast.unparse(s.targets[0]) == 'n_layers']
    if len(loops) != 1 or len(counts) != 1 or ast.unparse(loops[0].target) != 'layer' or ast.unparse(loops[0].iter) != 'range(1, n_layers + 1)' or loops[0].orelse:
        bail(fn, pots[0], 'layer loop `for layer in range(1, n_layers + 1)` / single assignment of n_layers')
    cnt = counts[0].value
    # n_layers = int(ARG) + 1
    if not (isinstance(cnt, ast.BinOp) and isinstance(cnt.op, ast.Add) and ast.unparse(cnt.right) == '1' and isinstance(cnt.left, ast.Call)
            and ast.unparse(cnt.left.func) == 'int' and len(cnt.left.args) == 1 and not cnt.left.keywords):
        bail(fn, counts[0], 'n_layers is not int(...) + 1')
    count_arg = r_expr(cnt.left.args[0], fn, RY_CYL_NAMES[:4])
    lb = loops[0].body
    writes = [n for s in lb for n in ast.walk(s) if isinstance(n, (ast.Assign, ast.AugAssign, ast.AnnAssign))
              for t in (n.targets if isinstance(n, ast.Assign) else [n.target]) if ast.unparse(t) in ('width', 'layer_population', 'layer', 'l_pore', 'd_ads', 'd_eff')]
    if len(lb) < 2 or not (isinstance(lb[0], ast.Assign) and ast.unparse(lb[0].targets[0]) == 'width' and len(lb[0].targets) == 1):
        bail(fn, lb[0], 'first statement of the layer loop is not `width = ...`')
    iff = lb[1]
    if not (isinstance(iff, ast.If) and isinstance(iff.test, ast.Compare) and len(iff.test.ops) == 1 and type(iff.test.ops[0]) in (ast.LtE, ast.Lt)
            and len(iff.body) == 1 and len(iff.orelse) == 1
            and all(isinstance(x, ast.Assign) and len(x.targets) == 1 and ast.unparse(x.targets[0]) == 'layer_population' for x in (iff.body[0], iff.orelse[0]))):
        bail(fn, iff, 'second statement of the layer loop is not `if A <= B: layer_population = ... else: layer_population = ...`')
    if len(writes) != 3:
        bail(fn, loops[0], 'width / layer_population are assigned elsewhere in the layer loop')
    if 'layer_populations.append(layer_population)' not in [ast.unparse(x) for x in lb]:
        bail(fn, loops[0], 'layer_populations.append(layer_population) not found')
    if not isinstance(body[-1], ast.Return) or ast.unparse(body[-1]) != ast.unparse(ast.parse(RY_CYL_RETURN)):
        bail(fn, body[-1], 'potential does not return the population-weighted average')
    after = [ast.unparse(x) for x in body[body.index(loops[0]) + 1:-1]]
    if after != ['layer_populations = numpy.asarray(layer_populations)', 'layer_potentials = numpy.asarray(layer_potentials)']:
        bail(fn, loops[0], 'statements between the layer loop and the return: %r' % after)
    dec = {ast.LtE: 'Rle_dec', ast.Lt: 'Rlt_dec'}[type(iff.test.ops[0])]
    return ("""
(* psd_horvath_kawazoe_ry, cylinder, closure potential(l_pore): n_layers = int(ry_cylinder_layer_count_arg) + 1; for layer = 1 .. n_layers
   the population of the layer; the value returned is the population-weighted average of the layer potentials times N/RT *)
Definition ry_cylinder_layer_count_arg (d_ads d_mat d_eff l_pore : R) : R := %s.
Definition ry_cylinder_layer_width (d_ads d_mat d_eff l_pore layer : R) : R := %s.
Definition ry_cylinder_layer_population (d_ads d_mat d_eff l_pore layer : R) : R :=
  let width := ry_cylinder_layer_width d_ads d_mat d_eff l_pore layer in
  if %s %s %s then %s else %s.
Definition ry_cylinder_average (N_over_RT : R) (layer_populations layer_potentials : list R) : R :=
  N_over_RT * fold_right Rplus 0 (map (fun p => fst p * snd p) (combine layer_populations layer_potentials)) / fold_right Rplus 0 layer_populations.
""" % (count_arg, r_expr(lb[0].value, fn, RY_CYL_NAMES[:5]), dec, r_expr(iff.test.left, fn, RY_CYL_NAMES), r_expr(iff.test.comparators[0], fn, RY_CYL_NAMES),
       r_expr(iff.body[0].value, fn, RY_CYL_NAMES), r_expr(iff.orelse[0].value, fn, RY_CYL_NAMES)))


# ---------------------------------------------------------------- psd_microporous: model-name dispatch
class Unknown(Exception):
    pass


_STR_METHODS = ('rstrip', 'lstrip', 'strip', 'endswith', 'startswith', 'removesuffix', 'removeprefix', 'replace', 'lower', 'upper',
                'split', 'rsplit', 'partition', 'rpartition', 'find', 'rfind', 'count', 'index', 'title', 'casefold')
SOLVER_FAMILY = {'psd_horvath_kawazoe': 'FamHK', 'psd_horvath_kawazoe_ry': 'FamRY'}
SOLVER_ARGS = ['pressure', 'loading', 'isotherm.temperature', 'pore_geometry', 'adsorbate_model', 'material_properties']


def cev(e, env):
    """CONCRETE evaluation of a pure expression over strings / booleans / lists (the model name is enumerated, so the dispatch is
    evaluated, not translated). Raises Unknown when the expression mentions anything that is not a function of the model name."""
    if isinstance(e, ast.Constant) and (e.value is None or isinstance(e.value, (str, bool, int))):
        return e.value
    if isinstance(e, ast.Name):
        if e.id in env:
            return env[e.id]
        raise Unknown(e.id)
    if isinstance(e, (ast.List, ast.Tuple)):
        v = [cev(x, env) for x in e.elts]
        return v if isinstance(e, ast.List) else tuple(v)
    if isinstance(e, ast.UnaryOp) and isinstance(e.op, ast.Not):
        return not cev(e.operand, env)
    if isinstance(e, ast.BoolOp):
        vals = None
        for x in e.values:
            vals = cev(x, env)
            if isinstance(e.op, ast.And) and not vals:
                return vals
            if isinstance(e.op, ast.Or) and vals:
                return vals
        return vals
    if isinstance(e, ast.IfExp):
        return cev(e.body, env) if cev(e.test, env) else cev(e.orelse, env)
    if isinstance(e, ast.Compare):
        left = cev(e.left, env)
        for op, r in zip(e.ops, e.comparators):
            right = cev(r, env)
            if isinstance(op, ast.Eq):
                ok = left == right
            elif isinstance(op, ast.NotEq):
                ok = left != right
            elif isinstance(op, ast.In):
                ok = left in right
            elif isinstance(op, ast.NotIn):
                ok = left not in right
            elif isinstance(op, ast.Is):
                ok = left is right
            elif isinstance(op, ast.IsNot):
                ok = left is not right
            else:
                raise Unknown('comparison')
            if not ok:
                return False
            left = right
        return True
    if isinstance(e, ast.Subscript):
        v = cev(e.value, env)
        if isinstance(e.slice, ast.Slice):
            lo = None if e.slice.lower is None else cev(e.slice.lower, env)
            hi = None if e.slice.upper is None else cev(e.slice.upper, env)
            st = None if e.slice.step is None else cev(e.slice.step, env)
            return v[lo:hi:st]
        return v[cev(e.slice, env)]
    if isinstance(e, ast.UnaryOp) and isinstance(e.op, ast.USub):
        return -cev(e.operand, env)
    if isinstance(e, ast.BinOp) and isinstance(e.op, ast.Add):
        return cev(e.left, env) + cev(e.right, env)
    if isinstance(e, ast.Call) and not e.keywords:
        if isinstance(e.func, ast.Attribute) and e.func.attr in _STR_METHODS:
            v = cev(e.func.value, env)
            if isinstance(v, str):
                return getattr(v, e.func.attr)(*[cev(a, env) for a in e.args])
        if isinstance(e.func, ast.Name) and e.func.id in ('len', 'bool', 'str') and e.func.id not in env and len(e.args) == 1:
            return {'len': len, 'bool': bool, 'str': str}[e.func.id](cev(e.args[0], env))
    raise Unknown(type(e).__name__)


def _assigned_names(stmts):
    out = set()
    for s in stmts:
        for n in ast.walk(s):
            if isinstance(n, ast.Name) and isinstance(n.ctx, (ast.Store, ast.Del)):
                out.add(n.id)
    return out


def _solver_calls(stmts):
    return [n for s in stmts for n in ast.walk(s) if isinstance(n, ast.Call) and isinstance(n.func, ast.Name) and n.func.id in SOLVER_FAMILY]


def dispatch_table(tree, fn):
    """psd_microporous, evaluated for every accepted model name: which low-level function is called and with which use_cy.
    Fail closed: the solver call must be reached through tests that depend on the model name only, with the recognised
    positional arguments, and its three results must be what the returned dictionary reports."""
    lists = {}
    for n in tree.body:
        if isinstance(n, ast.Assign) and len(n.targets) == 1 and isinstance(n.targets[0], ast.Name) and isinstance(n.value, ast.List) \
                and all(isinstance(x, ast.Constant) and isinstance(x.value, str) for x in n.value.elts):
            lists[n.targets[0].id] = [x.value for x in n.value.elts]
    for need in ('_MICRO_PSD_MODELS', '_PORE_GEOMETRIES'):
        if need not in lists:
            raise Unsupported('%s: %s (list of strings) not found' % (fn, need))
    fd = find_fun(tree, 'psd_microporous', fn)
    params = [a.arg for a in fd.args.args]
    if params[:3] != ['isotherm', 'psd_model', 'pore_geometry']:
        bail(fn, fd, 'signature of psd_microporous')
    defaults = {}
    for name in SOLVER_FAMILY:
        g = find_fun(tree, name, fn)
        ga = [a.arg for a in g.args.args]
        d = dict(zip(ga[len(ga) - len(g.args.defaults):], g.args.defaults))
        if 'use_cy' not in d or not (isinstance(d['use_cy'], ast.Constant) and isinstance(d['use_cy'].value, bool)):
            bail(fn, g, 'default of use_cy')
        defaults[name] = d['use_cy'].value
    body = strip_doc(fd.body)
    table = []
    for m in lists['_MICRO_PSD_MODELS']:
        env = dict(lists)
        env['psd_model'] = m
        found = []
        state = {'done': None}

        def walk(stmts):
            for s in stmts:
                if state['done']:
                    return
                if isinstance(s, ast.If):
                    try:
                        t = cev(s.test, env)
                    except (Unknown, TypeError, ValueError, IndexError, AttributeError):
                        if _solver_calls([s]):
                            bail(fn, s, 'the low-level PSD function is called under a test that is not a function of psd_model: ' + ast.unparse(s.test))
                        for nm in _assigned_names([s]):
                            env.pop(nm, None)
                        continue
                    walk(s.body if t else s.orelse)
                    continue
                if isinstance(s, ast.Raise):
                    state['done'] = 'raise'
                    return
                if isinstance(s, ast.Return):
                    state['done'] = ('return', s)
                    return
                if isinstance(s, ast.Assign) and isinstance(s.value, ast.Call) and isinstance(s.value.func, ast.Name) and s.value.func.id in SOLVER_FAMILY:
                    c = s.value
                    if [ast.unparse(a) for a in c.args] != SOLVER_ARGS:
                        bail(fn, s, 'positional arguments of %s are not %s' % (c.func.id, SOLVER_ARGS))
                    cy = defaults[c.func.id]
                    for kw in c.keywords:
                        if kw.arg != 'use_cy':
                            bail(fn, s, 'keyword %s of %s' % (kw.arg, c.func.id))
                        try:
                            cy = cev(kw.value, env)
                        except (Unknown, TypeError, ValueError, IndexError, AttributeError):
                            bail(fn, s, 'use_cy=%s is not a function of psd_model' % ast.unparse(kw.value))
                    if not isinstance(cy, bool):
                        bail(fn, s, 'use_cy=%r is not a boolean for psd_model=%r' % (cy, m))
                    if not (len(s.targets) == 1 and isinstance(s.targets[0], ast.Tuple) and all(isinstance(x, ast.Name) for x in s.targets[0].elts)
                            and len(s.targets[0].elts) == 3):
                        bail(fn, s, 'results of %s are not unpacked into three names' % c.func.id)
                    found.append((c.func.id, cy, [x.id for x in s.targets[0].elts]))
                    for nm in _assigned_names([s]):
                        env.pop(nm, None)
                    continue
                if _solver_calls([s]):
                    bail(fn, s, 'unrecognised use of the low-level PSD function')
                if isinstance(s, (ast.Assign, ast.AnnAssign)) and s.value is not None:
                    tg = s.targets if isinstance(s, ast.Assign) else [s.target]
                    if len(tg) == 1 and isinstance(tg[0], ast.Name):
                        try:
                            env[tg[0].id] = cev(s.value, env)
                            continue
                        except (Unknown, TypeError, ValueError, IndexError, AttributeError):
                            pass
                for nm in _assigned_names([s]):
                    env.pop(nm, None)
        walk(body)
        if state['done'] == 'raise':
            continue            # the name is refused: no entry (the theorem about the table will not hold)
        if len(found) != 1 or not (isinstance(state['done'], tuple) and state['done'][0] == 'return'):
            bail(fn, fd, 'psd_model=%r: expected exactly one low-level PSD call followed by a return, found %d' % (m, len(found)))
        ret = state['done'][1].value
        names = found[0][2]
        if not isinstance(ret, ast.Dict):
            bail(fn, state['done'][1], 'psd_microporous does not return a dictionary literal')
        rd = {k.value: ast.unparse(v) for k, v in zip(ret.keys, ret.values) if isinstance(k, ast.Constant)}
        for key, nm in zip(('pore_widths', 'pore_distribution', 'pore_volume_cumulative'), names):
            if rd.get(key) != nm:
                bail(fn, state['done'][1], 'result key %r is not the %s output of the low-level function' % (key, key))
        table.append((m, SOLVER_FAMILY[found[0][0]], found[0][1]))
    cs = lambda xs: '[' + '; '.join('"%s"' % x for x in xs) + ']'
    out = ['(* psd_microporous: accepted model names / geometries and, for every accepted name, the low-level function it is\n'
           '   dispatched to (FamHK = psd_horvath_kawazoe, FamRY = psd_horvath_kawazoe_ry) and the use_cy flag it passes *)',
           'Inductive hk_family : Set := FamHK | FamRY.',
           'Definition micro_psd_models : list string := %s.' % cs(lists['_MICRO_PSD_MODELS']),
           'Definition pore_geometries : list string := %s.' % cs(lists['_PORE_GEOMETRIES']),
           'Definition psd_microporous_dispatch : list (string * (hk_family * bool)) := [%s].\n'
           % '; '.join('("%s", (%s, %s))' % (m, f, 'true' if cy else 'false') for m, f, cy in table)]
    return '\n'.join(out)


MUTATORS = {'append', 'extend', 'insert', 'remove', 'pop', 'clear', 'update', 'setdefault', 'add', 'discard', 'popitem', 'sort', 'reverse',
            '__setitem__', '__delitem__', 'appendleft', 'popleft', 'move_to_end'}


def _root_name(n):
    while isinstance(n, (ast.Attribute, ast.Subscript)):
        n = n.value
    return n.id if isinstance(n, ast.Name) else None


def module_state(tree):
    """census of process-wide state in psd_micro.py: every place where a function writes to something that outlives the call
       (name, function): a module-level name (or a function object) rebound through `global`, stored into by subscript / attribute, deleted from,
                         or mutated by a container method; '@<decorator>' for a memoising decorator; 'arg:<param>...' for a store into an argument"""
    top = set()
    for n in tree.body:
        if isinstance(n, (ast.Assign, ast.AnnAssign, ast.AugAssign)):
            for t in (n.targets if isinstance(n, ast.Assign) else [n.target]):
                for x in ast.walk(t):
                    if isinstance(x, ast.Name):
                        top.add(x.id)
        elif isinstance(n, (ast.FunctionDef, ast.ClassDef)):
            top.add(n.name)
    out = []
    for f in ast.walk(tree):
        if not isinstance(f, (ast.FunctionDef, ast.AsyncFunctionDef)):
            continue
        for d in f.decorator_list:
            txt = ast.unparse(d)
            if 'cache' in txt.lower() or 'memo' in txt.lower():
                out.append(('@' + txt, f.name))
        params = {a.arg for a in f.args.args + f.args.kwonlyargs + f.args.posonlyargs} | ({f.args.vararg.arg} if f.args.vararg else set()) | \
                 ({f.args.kwarg.arg} if f.args.kwarg else set())
        glob = set()
        local = set(params)
        for n in ast.walk(f):
            if isinstance(n, (ast.Global, ast.Nonlocal)):
                glob |= set(n.names)
        for n in ast.walk(f):
            if isinstance(n, ast.Name) and isinstance(n.ctx, (ast.Store, ast.Del)) and n.id not in glob:
                local.add(n.id)
        for n in ast.walk(f):
            if isinstance(n, ast.Name) and isinstance(n.ctx, (ast.Store, ast.Del)) and n.id in glob:
                out.append((n.id, f.name))
            elif isinstance(n, (ast.Attribute, ast.Subscript)) and isinstance(n.ctx, (ast.Store, ast.Del)):
                r = _root_name(n)
                if r is None:
                    out.append(('<expression>' + ast.unparse(n), f.name))
                elif r in params:
                    out.append(('arg:' + ast.unparse(n), f.name))
                elif r not in local and (r in top or r in glob):
                    out.append((r, f.name))
            elif isinstance(n, ast.Call) and isinstance(n.func, ast.Attribute) and n.func.attr in MUTATORS:
                r = _root_name(n.func.value)
                if r is not None and r not in local and r in top:
                    out.append((r, f.name))
            elif isinstance(n, ast.Call) and isinstance(n.func, ast.Name) and n.func.id in ('setattr', 'delattr'):
                out.append(('setattr:' + ast.unparse(n), f.name))
    seen = []
    for x in out:
        if x not in seen:
            seen.append(x)
    return seen


def adsorbate_sources(tree, fn):
    """every assignment to `adsorbate_model` inside psd_microporous: the tests it sits under and, key by key, where the value comes from"""
    fd = find_fun(tree, 'psd_microporous', fn)
    rows = []

    def classify(v):
        txt = ast.unparse(v)
        if isinstance(v, ast.Call) and isinstance(v.func, ast.Attribute) and ast.unparse(v.func.value) == 'isotherm.adsorbate' and not v.keywords:
            args = [ast.unparse(a) for a in v.args]
            if v.func.attr == 'get_prop' and len(v.args) == 1 and isinstance(v.args[0], ast.Constant) and isinstance(v.args[0].value, str):
                return 'FromProperty "%s"' % v.args[0].value
            if args == ['isotherm.temperature']:
                return 'FromMethodAtIsothermTemperature "%s"' % v.func.attr
            if args == []:
                return 'FromMethod "%s"' % v.func.attr
        return 'OtherSource "%s"' % txt.replace('"', "'").replace('\n', ' ')

    def walk(stmts, guard):
        for s in stmts:
            tg = []
            if isinstance(s, ast.Assign):
                tg = s.targets
            elif isinstance(s, (ast.AnnAssign, ast.AugAssign)):
                tg = [s.target]
            hit = any(_root_name(t) == 'adsorbate_model' for t in tg for t in (t.elts if isinstance(t, ast.Tuple) else [t]))
            if not hit:
                for n in ast.walk(s) if not isinstance(s, (ast.If, ast.Try, ast.For, ast.While, ast.With)) else []:
                    if isinstance(n, ast.NamedExpr) and n.target.id == 'adsorbate_model':
                        hit = True
                    if isinstance(n, ast.Call) and isinstance(n.func, ast.Attribute) and n.func.attr in MUTATORS and _root_name(n.func.value) == 'adsorbate_model':
                        hit = True
            if hit:
                v = getattr(s, 'value', None)
                if isinstance(s, ast.Assign) and len(tg) == 1 and isinstance(tg[0], ast.Name) and isinstance(v, ast.Dict) and \
                        all(isinstance(k, ast.Constant) and isinstance(k.value, str) for k in v.keys):
                    rows.append((' and '.join(guard), [(k.value, classify(x)) for k, x in zip(v.keys, v.values)]))
                else:
                    rows.append((' and '.join(guard), [('*', 'OtherSource "%s"' % ast.unparse(s).replace('"', "'").replace('\n', ' '))]))
                continue
            if isinstance(s, ast.If):
                t = ast.unparse(s.test)
                walk(s.body, guard + [t])
                walk(s.orelse, guard + ['not (%s)' % t])
            elif isinstance(s, ast.Try):
                walk(s.body, guard)
                for h in s.handlers:
                    walk(h.body, guard + ['except ' + (ast.unparse(h.type) if h.type else '')])
                walk(s.orelse, guard)
                walk(s.finalbody, guard)
            elif isinstance(s, (ast.For, ast.While)):
                walk(s.body, guard + ['loop'])
                walk(s.orelse, guard)
            elif isinstance(s, ast.With):
                walk(s.body, guard)
    walk(strip_doc(fd.body), [])
    writes = module_state(tree)
    out = ['(* psd_microporous(adsorbate_model=None): every assignment to `adsorbate_model` in the function - the tests it sits under and, key by key,\n'
           '   where the value comes from; and the census of process-wide state of psd_micro.py: every (name, function) where a function writes to a\n'
           '   module-level name / function attribute / argument or carries a memoising decorator *)',
           'Inductive ads_source : Set := FromProperty (key : string) | FromMethodAtIsothermTemperature (method : string) | FromMethod (method : string) | OtherSource (text : string).',
           'Definition psd_microporous_adsorbate_model : list (string * list (string * ads_source)) := [%s].' % '; '.join(
               '("%s", [%s])' % (g, '; '.join('("%s", %s)' % (k, v) for k, v in kv)) for g, kv in rows),
           'Definition psd_micro_module_writes : list (string * string) := [%s].\n' % '; '.join('("%s", "%s")' % (a.replace('"', "'"), b) for a, b in writes)]
    return '\n'.join(out)


def scalar_function(tr, tree, fn, pyname, coqname, ptypes):
    fd = find_fun(tree, pyname, fn)
    params = [a.arg for a in fd.args.args]
    if fd.args.defaults or fd.args.vararg or fd.args.kwarg or len(params) != len(ptypes):
        bail(fn, fd, 'signature of ' + pyname)
    c = Ctx(fn, tr.T)
    for p, t in zip(params, ptypes):
        if t == 'N':
            c.sc.add(p)
        elif DICT_TY[DICTS.get(p, 'x')] != t:
            bail(fn, fd, 'parameter %s' % p)
    body = strip_doc(fd.body)
    ret = None
    for i, s in enumerate(body):
        if isinstance(s, ast.Return) and i == len(body) - 1 and s.value is not None:
            if isinstance(s.value, ast.Tuple):
                ret = '(%s)' % ', '.join(tr.E(x, c) for x in s.value.elts)
                rty = ' * '.join('N' for _ in s.value.elts)
            else:
                ret = tr.E(s.value, c)
                rty = 'N'
        elif not tr.stmt(s, c):
            bail(fn, s, 'statement ' + ast.unparse(s).split('\n')[0])
    if ret is None:
        bail(fn, fd, 'no return')
    sig = ' '.join('(%s : %s)' % (p, t) for p, t in zip(params, ptypes))
    tr.out.append('Definition %s %s : %s :=\n%s.\n' % (coqname, sig, rty, c.wrap(ret)))
    tr.out.append('Definition %s_def %s : Prop :=\n%s.\n' % (coqname, sig, c.defined()))
    tr.funs[pyname] = (coqname, len(params))


def translate(src):
    fn_t, dicts = tables(src)
    mat_keys = list(dicts['HK_KEYS'].keys())
    fn = os.path.join(src, 'pygaps/characterisation/psd_micro.py')
    tree = ast.parse(open(fn).read())
    # adsorbate keys: HK_KEYS + the literal list in the `missing` check of psd_horvath_kawazoe
    extra = None
    for n in ast.walk(find_fun(tree, 'psd_horvath_kawazoe', fn)):
        if isinstance(n, ast.Assign) and ast.unparse(n).startswith(ADS_MISSING):
            try:
                extra = [x.value for x in n.value.generators[0].iter.right.elts]
            except Exception:
                bail(fn, n, 'adsorbate key check')
    if extra is None:
        raise Unsupported(fn + ': adsorbate key check not found')
    T = {'mat_keys': mat_keys, 'ads_keys': mat_keys + extra}
    tr = Translator(src)
    tr.T = T
    scalar_function(tr, tree, fn, '_N_over_RT', 'N_over_RT', ['N'])
    scalar_function(tr, tree, fn, '_kirkwood_muller_dispersion_ads', 'kirkwood_muller_dispersion_ads', ['N', 'N'])
    scalar_function(tr, tree, fn, '_kirkwood_muller_dispersion_mat', 'kirkwood_muller_dispersion_mat', ['N', 'N', 'N', 'N'])
    scalar_function(tr, tree, fn, '_dispersion_from_dict', 'dispersion_from_dict', ['hkads', 'hkmat'])
    hk_function(tr, tree, fn, 'psd_horvath_kawazoe', 'hk', T)
    hk_function(tr, tree, fn, 'psd_horvath_kawazoe_ry', 'ry', T)
    solver_shape(tree, fn)
    dispatch = dispatch_table(tree, fn) + '\n' + adsorbate_sources(tree, fn)
    ry_layers = ry_cylinder_layers(tree, fn)

    o = []
    o.append('(* GENERATED by tools/py2v_hk.py from pygaps/characterisation/psd_micro.py and models_hk.py\n'
             '   -- do not edit; regenerated on every check run *)\n'
             'From Coq Require Import QArith Reals String List.\nFrom PG Require Import Lib.Num Charact.HkLib.\n'
             'Import ListNotations.\nOpen Scope string_scope.\n')
    for k in sorted(tr.consts):
        o.append('(* scipy.constants.%s = %r *)\nDefinition const_%s : Q := %s.\n' % (k, tr.consts[k], k, q(tr.consts[k])))
    o.append('Definition hk_keys : list string := [%s].' % '; '.join('"%s"' % k for k in mat_keys))
    o.append('Definition hk_adsorbate_keys : list string := [%s].\n' % '; '.join('"%s"' % k for k in T['ads_keys']))
    o.append(dispatch)
    o.append('Section HkGen.\nVariable N : Num.\n')
    o.append('Record hkmat := mk_hkmat { %s }.' % '; '.join('m_%s : N' % k for k in mat_keys))
    o.append('Record hkads := mk_hkads { %s }.\n' % '; '.join('a_%s : N' % k for k in T['ads_keys']))
    names = []
    for name, d in dicts.items():
        if name in ('HK_KEYS', '_ADSORBENT_MODELS'):
            continue
        if list(d.keys()) != mat_keys or not all(isinstance(v, (int, float)) for v in d.values()):
            raise Unsupported('%s: dictionary %s does not have exactly the HK_KEYS with numeric values' % (fn_t, name))
        o.append('Definition %s : hkmat := mk_hkmat %s.' % (name, ' '.join(nq(d[k]) for k in mat_keys)))
        names.append(name)
    ents = []
    for k, v in dicts['_ADSORBENT_MODELS'].items():
        if not (isinstance(v, tuple) and v[1] in names):
            raise Unsupported('%s: _ADSORBENT_MODELS[%r]' % (fn_t, k))
        ents.append('("%s", %s)' % (k, v[1]))
    o.append('Definition adsorbent_models : list (string * hkmat) := [%s].\n' % '; '.join(ents))
    o.extend(tr.out)
    o.append(SOLVER_COQ)
    o.append('End HkGen.\n')
    o.append('Open Scope R_scope.' + SOLVER_COQ_R + ry_layers)
    return '\n'.join(o)


def main():
    src, outdir = sys.argv[1], sys.argv[2]
    try:
        text = translate(src)
    except Unsupported as e:
        sys.stderr.write(str(e) + '\n')
        sys.exit(1)
    path = os.path.join(outdir, 'HkGen.v')
    if not os.path.exists(path) or open(path).read() != text:
        open(path, 'w').write(text)


if __name__ == '__main__':
    main()
