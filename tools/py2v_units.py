"""py2v_units: fail-closed translator of pygaps/units/converter_unit.py and converter_mode.py into Gallina.

Method: symbolic execution with join points. Each loop-free Python function becomes one Gallina
definition in the `res`/`ctl` monads of Lib/Py.v, parametrised by a carrier `N : Num`.
An `if` whose branches only assign becomes an expression returning the tuple of re-assigned locals.
Any construct outside the supported subset raises Unsupported (the check then reports the
obligations that depend on the generated file as broken).

Usage: py2v_units.py <repo_src_dir> <out_dir>   -> writes UnitsGen1.v (converter_unit) and UnitsGen2.v (converter_mode)
"""
import ast, sys, fractions

SRC_UNIT = '/repo/src/pygaps/units/converter_unit.py'
SRC_MODE = '/repo/src/pygaps/units/converter_mode.py'


class Unsupported(Exception):
    pass


PARAM_TYPES = {
    'py_unit': 'ostr',
    'value': 'num', 'temp': 'onum', 'sign': 'int',
    'unit': 'ostr', 'units': 'tbl', 'utype': 'ostr', 'unit_list': 'tbl',
    'unit_from': 'ostr', 'unit_to': 'ostr', 'mode_from': 'ostr', 'mode_to': 'ostr',
    'basis_from': 'ostr', 'basis_to': 'ostr', 'basis': 'ostr', 'bases': 'mtbl', 'btype': 'ostr',
    'basis_material': 'ostr', 'unit_material': 'ostr', 'adsorbate': 'ads', 'material': 'mat',
}
COQ_TY = {'unit': 'Datatypes.unit', 'num': 'N', 'onum': 'option N', 'int': 'Z', 'ostr': 'option string', 'tbl': 'tbl',
          'otbl': 'option tbl', 'mtbl': 'mtbl', 'ads': 'adsorbate', 'mat': 'material'}
GLOBALS = {}   # name -> (coq name, type)
FUNCS = {}     # name -> (params, rettype)


def qlit(n):
    fr = fractions.Fraction(str(n))
    return f"(@nofQ N ({fr.numerator} # {fr.denominator}))"


def strlit(s):
    return '"' + s.replace('"', '""') + '"'


class E:
    def __init__(self, text, ty, intval=None):
        self.text, self.ty, self.intval = text, ty, intval


def truthy(e):
    if e.ty == 'bool': return e.text
    if e.ty in ('ostr', 'onum', 'otbl'): return f"({e.ty}_truthy {e.text})"
    if e.ty == 'none': return "false"
    raise Unsupported(f"truthiness of {e.ty}")


def as_ostr(e):
    if e.ty == 'ostr': return e.text
    if e.ty == 'none': return "(@None string)"
    raise Unsupported(f"expected str, got {e.ty}")


def as_num(e):
    """returns (text, is_monadic)"""
    if e.ty == 'num': return e.text
    if e.ty == 'int': return f"(@ofZ N {e.text})"
    raise Unsupported(f"expected num, got {e.ty}")


class Tr:
    """Translate one function by symbolic execution. Result of a block is Coq text of type res X."""

    OK = 'Ok'
    BINDC = 'bindc'
    RUN = 'run'

    def __init__(self, fn):
        self.fn = fn
        self.k = 0
        self.sty = "Datatypes.unit"

    def raise_(self, exc, env):
        return f"Err {exc}"

    def bind_text(self, c, v, body, env):
        return f"bind {c} (fun {v} =>\n {body})"

    def fresh(self, base):
        self.k += 1
        return f"{base}_{self.k}"

    # ---- expressions. returns E; monadic sub-computations are hoisted through self.binds (list)
    def expr(self, n, env, binds):
        if isinstance(n, ast.Constant):
            v = n.value
            if v is None: return E("None", 'none')
            if isinstance(v, str): return E(f"(Some {strlit(v)})", 'ostr')
            if isinstance(v, bool): return E(str(v).lower(), 'bool')
            if isinstance(v, int): return E(f"({v})%Z", 'int', v)
            if isinstance(v, float): return E(qlit(v), 'num')
        if isinstance(n, ast.UnaryOp) and isinstance(n.op, ast.USub):
            a = self.expr(n.operand, env, binds)
            if a.ty == 'int': return E(f"({-a.intval})%Z", 'int', -a.intval)
            return E(f"(nopp {as_num(a)})", 'num')
        if isinstance(n, ast.UnaryOp) and isinstance(n.op, ast.Not):
            return E(f"(negb {truthy(self.expr(n.operand, env, binds))})", 'bool')
        if isinstance(n, ast.Name):
            if n.id in env: return env[n.id]
            if n.id in GLOBALS: return E(*GLOBALS[n.id])
            raise Unsupported(f"name {n.id}")
        if isinstance(n, ast.List):
            els = [self.expr(x, env, binds) for x in n.elts]
            return E("[" + "; ".join(as_ostr(x) for x in els) + "]", 'ostrlist')
        if isinstance(n, ast.BoolOp):
            vals = [truthy(self.expr(x, env, binds)) for x in n.values]
            op = " && " if isinstance(n.op, ast.And) else " || "
            return E("(" + op.join(vals) + ")", 'bool')
        if isinstance(n, ast.Compare) and len(n.ops) == 1:
            a = self.expr(n.left, env, binds); b = self.expr(n.comparators[0], env, binds); op = n.ops[0]
            if isinstance(op, (ast.Eq, ast.NotEq)):
                t = f"(ostr_eqb {as_ostr(a)} {as_ostr(b)})"
                return E(t if isinstance(op, ast.Eq) else f"(negb {t})", 'bool')
            if isinstance(op, (ast.In, ast.NotIn)):
                if b.ty == 'ostrlist': t = f"(ostr_in {as_ostr(a)} {b.text})"
                elif b.ty == 'tbl': t = f"(tbl_mem {as_ostr(a)} {b.text})"
                elif b.ty == 'mtbl': t = f"(mtbl_mem {as_ostr(a)} {b.text})"
                elif b.ty == 'ostr': t = f"(ostr_contains {as_ostr(a)} {b.text})"
                else: raise Unsupported(f"in {b.ty}")
                return E(t if isinstance(op, ast.In) else f"(negb {t})", 'bool')
        if isinstance(n, ast.Subscript):
            d = self.expr(n.value, env, binds); k = self.expr(n.slice, env, binds)
            v = self.fresh('v')
            if d.ty == 'tbl':
                binds.append((v, f"(tbl_get {d.text} {as_ostr(k)})")); return E(v, 'num')
            if d.ty == 'otbl':
                binds.append((v, f"(otbl_get {d.text} {as_ostr(k)})")); return E(v, 'num')
            if d.ty == 'mtbl':
                binds.append((v, f"(mtbl_get {d.text} {as_ostr(k)})")); return E(v, 'otbl')
            raise Unsupported(f"subscript of {d.ty}")
        if isinstance(n, ast.BinOp):
            a = self.expr(n.left, env, binds); b = self.expr(n.right, env, binds)
            if isinstance(n.op, ast.Pow):
                if b.ty != 'int': raise Unsupported("pow with non-int exponent " + b.ty)
                v = self.fresh('pw')
                binds.append((v, f"(powz {as_num(a)} {b.text})")); return E(v, 'num')
            opn = {ast.Add: 'nadd', ast.Sub: 'nsub', ast.Mult: 'nmul', ast.Div: 'ndiv'}.get(type(n.op))
            if not opn: raise Unsupported("binop")
            if opn == 'ndiv':
                v = self.fresh('q')
                binds.append((v, f"(safe_div {as_num(a)} {as_num(b)})")); return E(v, 'num')
            return E(f"({opn} {as_num(a)} {as_num(b)})", 'num')
        if isinstance(n, ast.Call):
            # method on ostr: x.lower()
            if isinstance(n.func, ast.Attribute) and n.func.attr == 'lower' and not n.args:
                a = self.expr(n.func.value, env, binds)
                return E(f"(ostr_lower {as_ostr(a)})", 'ostr')
            # oracle calls on adsorbate
            if isinstance(n.func, ast.Attribute) and isinstance(n.func.value, ast.Name) and \
                    env.get(n.func.value.id, E('', '')).ty == 'ads':
                v = self.fresh('o')
                kw = {k.arg: self.expr(k.value, env, binds) for k in n.keywords}
                args = [self.expr(x, env, binds) for x in n.args]
                m = n.func.attr
                if m == 'saturation_pressure':
                    temp = args[0]; unit = kw['unit']
                    binds.append((v, f"(ads_saturation_pressure {env[n.func.value.id].text} {temp.text} {as_ostr(unit)})"))
                elif m == 'molar_mass':
                    binds.append((v, f"(ads_molar_mass {env[n.func.value.id].text})"))
                else:
                    binds.append((v, f"(ads_{m} {env[n.func.value.id].text} {kw['temp'].text})"))
                return E(v, 'num')
            if isinstance(n.func, ast.Name) and n.func.id in FUNCS:
                params, rty = FUNCS[n.func.id]
                args = [self.expr(x, env, binds) for x in n.args]
                kw = {k.arg: self.expr(k.value, env, binds) for k in n.keywords}
                full = []
                for i, (p, pty, default) in enumerate(params):
                    if i < len(args): a = args[i]
                    elif p in kw: a = kw[p]
                    elif default is not None: a = default
                    else: raise Unsupported(f"missing arg {p}")
                    if pty == 'tbl' and a.ty == 'otbl':
                        fv = self.fresh('t'); binds.append((fv, f"(otbl_force {a.text})")); a = E(fv, 'tbl')
                    full.append(coerce(a, pty))
                v = self.fresh('r')
                binds.append((v, f"({n.func.id} " + " ".join(full) + ")"))
                return E(v, rty)
        if isinstance(n, ast.Attribute) and isinstance(n.value, ast.Name) and env.get(n.value.id, E('', '')).ty == 'mat':
            v = self.fresh('m')
            binds.append((v, f"(mat_{n.attr} {env[n.value.id].text})"))
            return E(v, 'num')
        raise Unsupported(ast.dump(n)[:200])

    def wrap(self, binds, body, env=None):
        for v, c in reversed(binds):
            body = self.bind_text(c, v, body, env)
        return body

    # ---- statements. Emitted text has type  res (ctl R S): Return r | Fall s
    def assigned(self, stmts):
        w = []
        for st in stmts:
            for n in ast.walk(st):
                if isinstance(n, ast.Assign) and isinstance(n.targets[0], ast.Name) and n.targets[0].id not in w:
                    w.append(n.targets[0].id)
        return w

    def block(self, stmts, env, rest):
        if not stmts:
            return rest(env)
        s, tail = stmts[0], stmts[1:]
        cont = lambda e: self.block(tail, e, rest)
        if isinstance(s, ast.Expr):
            if isinstance(s.value, ast.Constant): return cont(env)
            binds = []; self.expr(s.value, env, binds)
            return self.wrap(binds, cont(env), env)
        if isinstance(s, ast.Assign) and len(s.targets) == 1 and isinstance(s.targets[0], ast.Name):
            binds = []; v = self.expr(s.value, env, binds)
            env2 = dict(env); env2[s.targets[0].id] = v
            return self.wrap(binds, cont(env2), env)
        if isinstance(s, ast.Return):
            binds = []; v = self.expr(s.value, env, binds)
            return self.wrap(binds, f"{self.OK} (@Return _ {self.sty} {coerce(v, self.rty)})", env)
        if isinstance(s, ast.Raise):
            exc = s.exc.func.id if isinstance(s.exc, ast.Call) else s.exc.id
            return self.raise_(exc, env)
        if isinstance(s, ast.If):
            binds = []; c = truthy(self.expr(s.test, env, binds))
            W = [w for w in self.assigned(s.body + s.orelse)]
            # pass 1: discover fall-through types
            seen = {w: set() for w in W}
            def probe(e):
                for w in W:
                    if w in e: seen[w].add(e[w].ty)
                    else: seen[w].add('undef')
                return "PROBE"
            k0 = self.k
            self.block(s.body, env, probe); self.block(s.orelse, env, probe)
            self.k = k0
            W2, tys = [], {}
            for w in W:
                t = seen[w] - {'undef'} if 'undef' in seen[w] and w not in env else seen[w]
                if 'undef' in seen[w] and not (seen[w] - {'undef'}): continue
                if 'undef' in seen[w]: continue   # assigned on some paths only, and unknown before: drop
                t = set(seen[w])
                if t == {'int', 'num'}: u = 'num'
                elif t <= {'none', 'ostr'}: u = 'ostr'
                elif len(t) == 1: u = next(iter(t))
                else: raise Unsupported(f"cannot unify {w}: {t}")
                W2.append(w); tys[w] = u
            def fall(e):
                if not W2: return f"{self.OK} (Fall tt)"
                return f"{self.OK} (Fall (" + ", ".join(coerce(e[w], tys[w]) for w in W2) + "))"
            old_sty = self.sty
            self.sty = "Datatypes.unit" if not W2 else "(" + " * ".join(COQ_TY[tys[w]] for w in W2) + ")"
            t = self.block(s.body, env, fall)
            f = self.block(s.orelse, env, fall)
            self.sty = old_sty
            env2 = dict(env)
            names = []
            for w in W2:
                nm = self.fresh(w); names.append(nm); env2[w] = E(nm, tys[w])
            pat = "_" if not W2 else ("'(" + ", ".join(names) + ")" if len(names) > 1 else names[0])
            return self.wrap(binds, f"{self.BINDC} (if {c}\n then {t}\n else {f}) (fun {pat} =>\n {cont(env2)})", env)
        raise Unsupported(ast.dump(s)[:200])

    def translate(self):
        fn = self.fn
        params = []
        defaults = [None] * (len(fn.args.args) - len(fn.args.defaults)) + list(fn.args.defaults)
        env = {}
        for a, d in zip(fn.args.args, defaults):
            ty = PARAM_TYPES[a.arg]
            dv = None
            if d is not None:
                dv = self.expr(d, {}, [])
            params.append((a.arg, ty, dv))
            env[a.arg] = E(a.arg, ty)
        self.rty = 'unit' if fn.name.startswith('_check') else 'num'
        FUNCS[fn.name] = (params, self.rty)
        body = "run (" + self.block(fn.body, env, lambda e: "Ok (@Return _ Datatypes.unit tt)" if self.rty == 'unit' else "Err FellOffEnd") + ")"
        sig = " ".join(f"({p} : {COQ_TY[t]})" for p, t, _ in params)
        rt = 'Datatypes.unit' if self.rty == 'unit' else 'N'
        return f"Definition {fn.name} {sig} : res {rt} :=\n {body}.\n"


def coerce(e, ty):
    if ty == 'num': return as_num(e)
    if ty == 'ostr': return as_ostr(e)
    if ty == 'ostr': return as_ostr(e)
    if ty == 'onum':
        if e.ty == 'onum': return e.text
        if e.ty == 'none': return "None"
        if e.ty == 'num': return f"(Some {e.text})"
    if ty == 'unit': return "tt"
    if ty == 'int' and e.ty == 'int': return e.text
    if ty == e.ty: return e.text
    if ty == 'otbl' and e.ty == 'tbl': return f"(Some {e.text})"
    if ty == 'otbl' and e.ty == 'none': return "None"
    raise Unsupported(f"coerce {e.ty} -> {ty}")


def tables(tree, out):
    for n in tree.body:
        if isinstance(n, ast.Assign) and isinstance(n.value, ast.Dict):
            name = n.targets[0].id
            vals = n.value.values
            if all(isinstance(v, ast.Constant) and isinstance(v.value, (int, float)) for v in vals) or \
               all(isinstance(v, ast.UnaryOp) or isinstance(v, ast.Constant) for v in vals):
                rows = []
                for k, v in zip(n.value.keys, vals):
                    num = ast.literal_eval(v)
                    rows.append(f"({strlit(k.value)}, {qlit(num)})")
                out.append(f"Definition {name} : tbl := [{'; '.join(rows)}].\n")
                GLOBALS[name] = (name, 'tbl')
            else:
                rows = []
                for k, v in zip(n.value.keys, vals):
                    if isinstance(v, ast.Name): rows.append(f"({strlit(k.value)}, Some {v.id})")
                    else: rows.append(f"({strlit(k.value)}, None)")
                out.append(f"Definition {name} : mtbl := [{'; '.join(rows)}].\n")
                GLOBALS[name] = (name, 'mtbl')


HEADER1 = """(* GENERATED by tools/py2v_units.py from {src} -- do not edit; regenerated on every check run *)
From Coq Require Import QArith ZArith String List Bool.
From PG Require Import Lib.Num Lib.Py.
Import ListNotations.
Open Scope string_scope.
Section Gen.
Variable N : Num.
Local Notation tbl := (tbl N).
Local Notation mtbl := (mtbl N).
"""
HEADER2 = """(* GENERATED by tools/py2v_units.py from {src} -- do not edit; regenerated on every check run *)
From Coq Require Import QArith ZArith String List Bool.
From PG Require Import Lib.Num Lib.Py Gen.UnitsGen1 Units.AdsOracle.
Import ListNotations.
Open Scope string_scope.
Section Gen.
Variable N : Num.
Local Notation tbl := (tbl N).
Local Notation mtbl := (mtbl N).
Local Notation adsorbate := (adsorbate N).
Local Notation material := (material N).
{imports}
"""
RENAME = {'unit': 'py_unit'}


def rename_params(fn):
    """Python identifiers that clash with Coq ones get a py_ prefix (consistently, params and uses)."""
    for n in ast.walk(fn):
        if isinstance(n, ast.arg) and n.arg in RENAME:
            n.arg = RENAME[n.arg]
        if isinstance(n, ast.Name) and n.id in RENAME:
            n.id = RENAME[n.id]
        if isinstance(n, ast.keyword) and n.arg in RENAME:
            pass  # keyword names of oracle calls are matched by the translator, keep
    return fn


def translate_module(path, sect_globals_from_prev):
    out = []
    tree = ast.parse(open(path, encoding='utf8').read())
    tables(tree, out)
    for n in tree.body:
        if isinstance(n, ast.FunctionDef):
            out.append(Tr(rename_params(n)).translate())
        elif isinstance(n, (ast.ImportFrom, ast.Import)):
            continue
        elif isinstance(n, ast.Expr) and isinstance(n.value, ast.Constant):
            continue
        elif isinstance(n, ast.Assign) and isinstance(n.value, ast.Dict):
            continue
        else:
            raise Unsupported(f"{path}:{n.lineno}: top-level {type(n).__name__}")
    return out


def main():
    srcdir, outdir = sys.argv[1], sys.argv[2]
    import os
    p1 = os.path.join(srcdir, 'pygaps/units/converter_unit.py')
    p2 = os.path.join(srcdir, 'pygaps/units/converter_mode.py')
    res = {}
    try:
        o1 = translate_module(p1, None)
        g1 = list(GLOBALS) ; f1 = list(FUNCS)
        res['UnitsGen1.v'] = HEADER1.format(src='pygaps/units/converter_unit.py') + "\n".join(o1) + "\nEnd Gen.\n"
        o2 = translate_module(p2, None)
        # names from UnitsGen1 are used applied to N inside the section of UnitsGen2
        imports = "\n".join(f"Local Notation {g} := ({g} N)." for g in g1 + f1)
        res['UnitsGen2.v'] = HEADER2.format(src='pygaps/units/converter_mode.py', imports=imports) + "\n".join(o2) + "\nEnd Gen.\n"
    except (Unsupported, KeyError, SyntaxError, AttributeError, TypeError) as e:
        sys.stderr.write(f"py2v_units: UNSUPPORTED: {type(e).__name__}: {e}\n")
        sys.exit(3)
    for name, text in res.items():
        path = os.path.join(outdir, name)
        old = open(path).read() if os.path.exists(path) else None
        if old != text:
            open(path, 'w').write(text)


if __name__ == '__main__':
    main()
