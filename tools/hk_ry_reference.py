"""Rege-Yang corrected Horvath-Kawazoe potentials, transcribed from the PUBLISHED equations
(S. U. Rege, R. T. Yang, AIChE J. 46 (2000) 734-750, as written out in the docstring of
pygaps.characterisation.psd_micro.psd_horvath_kawazoe_ry), NOT from the code of pyGAPS.

Everything is a function of the physical quantities of the paper:
    d_g, d_h   diameters of the guest molecule / host surface atom (nm)      d_0 = (d_g + d_h) / 2
    n_g, n_h   surface densities (molecules / m2)
    A_gg, A_gh Kirkwood-Mueller dispersion constants (J m6)
    L          slit: distance between the nuclei of the two walls; cylinder / sphere: radius to the wall nuclei (nm)
and returns Phi / RT = N_A eps_bar / (R T) = ln(p / p0).

The only convention taken over from the library is the NUMBER OF TERMS of the (slowly converging) cylinder series, which the
published equation leaves open (an infinite sum): `series_terms(L)`. It is a parameter of `phi_cylinder`.

The second part (hk_phi_slit / hk_phi_cylinder / hk_phi_sphere) holds the published equations of the classic one-layer HK family (Horvath-Kawazoe slit,
Saito-Foley cylinder - the infinite series summed to convergence -, Cheng-Yang sphere).

Used by tools/props/c17.py (independent expectation of the run-time oracle). This module imports nothing from pygaps.
"""
import math

# CODATA 2018
N_A = 6.02214076e23          # 1 / mol
R_GAS = 8.314462618          # J / (mol K)
M_E = 9.1093837015e-31       # kg
C_LIGHT = 299792458.0        # m / s
NM = 1e-9
NM3 = 1e-27


def dispersion_constants(ads, mat):
    """Kirkwood-Mueller: A_gg = 3/2 m c^2 alpha_g chi_g,  A_gh = 6 m c^2 alpha_g alpha_h / (alpha_g / chi_g + alpha_h / chi_h)"""
    mc2 = M_E * C_LIGHT ** 2
    al_g, ch_g = ads['polarizability'] * NM3, ads['magnetic_susceptibility'] * NM3
    al_h, ch_h = mat['polarizability'] * NM3, mat['magnetic_susceptibility'] * NM3
    return 1.5 * mc2 * al_g * ch_g, 6.0 * mc2 * al_g * al_h / (al_g / ch_g + al_h / ch_h)


def _lj104(x):
    """(sigma / z)^10 - (sigma / z)^4"""
    return x ** 10 - x ** 4


# ------------------------------------------------------------------ slit
def slit_layers(L, d_g, d_h):
    """M = (L - d_h) / d_g (a real number)"""
    return (L - d_h) / d_g


def phi_slit(L, T, ads, mat):
    d_g, d_h = ads['molecular_diameter'], mat['molecular_diameter']
    n_g, n_h = ads['surface_density'], mat['surface_density']
    a_gg, a_gh = dispersion_constants(ads, mat)
    d_0 = (d_g + d_h) / 2
    zero = (2.0 / 5.0) ** (1.0 / 6.0)
    sigma, sigma_g = zero * d_0, zero * d_g
    k_h = n_h * a_gh / (2 * (sigma * NM) ** 4)
    k_g = n_g * a_gg / (2 * (sigma_g * NM) ** 4)
    m = slit_layers(L, d_g, d_h)
    if m < 2:
        # one layer: the molecule sits at d_0 from one wall and L - d_0 from the other; both walls attract (10-4 potential of each wall)
        eps = k_h * (_lj104(sigma / d_0) + _lj104(sigma / (L - d_0)))
    else:
        e_hgg = k_h * _lj104(sigma / d_0) + k_g * _lj104(sigma_g / d_g)
        e_ggg = 2 * k_g * _lj104(sigma_g / d_g)
        eps = (2 * e_hgg + (m - 2) * e_ggg) / m
    return N_A * eps / (R_GAS * T)


# ------------------------------------------------------------------ cylinder / sphere: concentric layers
def concentric_layers(L, d_g, d_h):
    """M = int[((2L - d_h) / d_g - 1) / 2] + 1"""
    return int(((2 * L - d_h) / d_g - 1) / 2) + 1


def ring_radius(L, d_g, d_h, i):
    """radius of the circle through the centres of the molecules of layer i (1 = next to the wall): L - d_0 - (i - 1) d_g"""
    return L - (d_g + d_h) / 2 - (i - 1) * d_g


def cylinder_population(L, d_g, d_h, i):
    """n_i = pi / asin(d_g / (2 r_i)): molecules of diameter d_g on a circle of radius r_i; a circle of radius < d_g / 2 cannot hold
    two molecules: the layer is ONE molecule on the pore axis"""
    r_i = ring_radius(L, d_g, d_h, i)
    if 2 * r_i >= d_g:
        return math.pi / math.asin(d_g / (2 * r_i))
    return 1.0


def series_terms(L):
    """number of terms of the two series summed (k = 0 .. terms - 1). The publication writes an infinite sum; pyGAPS documents
    'int(25 L)' terms (at most 2000)"""
    return max(1, min(int(L * 25), 2000))


def _alpha(k):
    """alpha_k = [Gamma(-4.5) / (Gamma(-4.5 - k) Gamma(k + 1))]^2 = [Gamma(k + 5.5) / (Gamma(5.5) k!)]^2"""
    return math.exp(2 * (math.lgamma(k + 5.5) - math.lgamma(5.5) - math.lgamma(k + 1)))


def _beta(k):
    """beta_k = [Gamma(-1.5) / (Gamma(-1.5 - k) Gamma(k + 1))]^2 = [Gamma(k + 2.5) / (Gamma(2.5) k!)]^2"""
    return math.exp(2 * (math.lgamma(k + 2.5) - math.lgamma(2.5) - math.lgamma(k + 1)))


_AB = {}


def _coeff(k):
    if k not in _AB:
        _AB[k] = (_alpha(k), _beta(k))
    return _AB[k]


def _cyl_eps(n, a_disp, d, a, terms):
    """3/4 pi n A / d^4 [21/32 a^10 sum alpha_k b^2k - a^4 sum beta_k b^2k],  b = 1 - a"""
    b2 = (1 - a) ** 2
    s_a = math.fsum(_coeff(k)[0] * b2 ** k for k in range(terms))
    s_b = math.fsum(_coeff(k)[1] * b2 ** k for k in range(terms))
    return 0.75 * math.pi * n * a_disp / (d * NM) ** 4 * (21.0 / 32.0 * a ** 10 * s_a - a ** 4 * s_b)


def cylinder_layers(L, T, ads, mat, terms=None):
    """[(n_i, eps_i)] for i = 1 .. M"""
    d_g, d_h = ads['molecular_diameter'], mat['molecular_diameter']
    n_g, n_h = ads['surface_density'], mat['surface_density']
    a_gg, a_gh = dispersion_constants(ads, mat)
    d_0 = (d_g + d_h) / 2
    terms = series_terms(L) if terms is None else terms
    out = []
    for i in range(1, concentric_layers(L, d_g, d_h) + 1):
        if i == 1:
            e = _cyl_eps(n_h, a_gh, d_0, d_0 / L, terms)                                    # a_1 = d_0 / L
        else:
            e = _cyl_eps(n_g, a_gg, d_g, d_g / ring_radius(L, d_g, d_h, i - 1), terms)      # a_i = d_g / (L - d_0 - (i - 2) d_g)
        out.append((cylinder_population(L, d_g, d_h, i), e))
    return out


def phi_cylinder(L, T, ads, mat, terms=None):
    lay = cylinder_layers(L, T, ads, mat, terms)
    eps = math.fsum(n * e for n, e in lay) / math.fsum(n for n, _ in lay)
    return N_A * eps / (R_GAS * T)


def _sph_eps(n_prev, a_disp, d, a):
    """2 n A / (4 d^6) [a^12 / (10 b) (1/(1-b)^10 - 1/(1+b)^10) - a^6 / (4 b) (1/(1-b)^4 - 1/(1+b)^4)],  b = 1 - a"""
    b = 1 - a
    return 2 * n_prev * a_disp / (4 * (d * NM) ** 6) * (
        a ** 12 / (10 * b) * (1 / (1 - b) ** 10 - 1 / (1 + b) ** 10) - a ** 6 / (4 * b) * (1 / (1 - b) ** 4 - 1 / (1 + b) ** 4))


def phi_sphere(L, T, ads, mat):
    d_g, d_h = ads['molecular_diameter'], mat['molecular_diameter']
    n_g, n_h = ads['surface_density'], mat['surface_density']
    a_gg, a_gh = dispersion_constants(ads, mat)
    d_0 = (d_g + d_h) / 2
    m = concentric_layers(L, d_g, d_h)
    n_0 = 4 * math.pi * (L * NM) ** 2 * n_h                                       # wall atoms seen by the first layer
    n = [4 * math.pi * (ring_radius(L, d_g, d_h, i) * NM) ** 2 * n_g for i in range(1, m + 1)]      # n_1 .. n_M
    eps = [_sph_eps(n_0, a_gh, d_0, d_0 / L)]
    for i in range(2, m + 1):
        eps.append(_sph_eps(n[i - 2], a_gg, d_g, d_g / ring_radius(L, d_g, d_h, i - 1)))
    return N_A * math.fsum(x * e for x, e in zip(n, eps)) / math.fsum(n) / (R_GAS * T)


PHI = {'slit': phi_slit, 'cylinder': phi_cylinder, 'sphere': phi_sphere}


# ------------------------------------------------------------------ the classic HK family (one adsorbate layer): published equations
# Horvath & Kawazoe 1983 (slit), Saito & Foley 1991 (cylinder), Cheng & Yang 1994 (sphere), as written in the docstring of
# pygaps.characterisation.psd_micro.psd_horvath_kawazoe. N_A eps / (R T) = ln(p / p0).
def hk_phi_slit(L, T, ads, mat):
    """N_A (n_h A_gh + n_g A_gg) / (sigma^4 (L - 2 d_0)) [sigma^10 / (9 d_0^9) - sigma^4 / (3 d_0^3) - sigma^10 / (9 (L - d_0)^9) + sigma^4 / (3 (L - d_0)^3)]"""
    d_g, d_h = ads['molecular_diameter'], mat['molecular_diameter']
    n_g, n_h = ads['surface_density'], mat['surface_density']
    a_gg, a_gh = dispersion_constants(ads, mat)
    d_0 = (d_g + d_h) / 2
    sigma = (2.0 / 5.0) ** (1.0 / 6.0) * d_0
    br = sigma ** 10 / (9 * d_0 ** 9) - sigma ** 4 / (3 * d_0 ** 3) - sigma ** 10 / (9 * (L - d_0) ** 9) + sigma ** 4 / (3 * (L - d_0) ** 3)
    return N_A / (R_GAS * T) * (n_h * a_gh + n_g * a_gg) / ((sigma * NM) ** 4 * (L - 2 * d_0)) * br


_LOG_AB = []


def _log_coeff(k):
    """(ln alpha_k, ln beta_k) of the Saito-Foley series (closed form of the recursion alpha_k = ((-4.5 - k) / k)^2 alpha_(k-1), alpha_0 = 1)"""
    while len(_LOG_AB) <= k:
        j = len(_LOG_AB)
        _LOG_AB.append((2 * (math.lgamma(j + 5.5) - math.lgamma(5.5) - math.lgamma(j + 1)), 2 * (math.lgamma(j + 2.5) - math.lgamma(2.5) - math.lgamma(j + 1))))
    return _LOG_AB[k]


def saito_foley_sum(a, terms=None, tol=1e-18, cap=400000):
    """sum_k 1 / (k + 1) (1 - a)^(2k) [21/32 alpha_k a^10 - beta_k a^4],  a = d_0 / L.
    terms=None: the INFINITE sum of the publication, summed until both terms are below `tol` of the sum of magnitudes (past the maximum
    of the terms, which first GROW with k: alpha_k ~ k^9); terms=n: the first n terms (k = 0 .. n - 1).  -> (sum, number of terms)"""
    b = 1 - a
    if b <= 0:
        return 21.0 / 32.0 * a ** 10 - a ** 4, 1
    lb = 2 * math.log(b)
    la10, la4 = math.log(21.0 / 32.0) + 10 * math.log(a), 4 * math.log(a)
    k_peak = 9 / (-lb)
    parts, mag, k = [], 0.0, 0
    while k < (cap if terms is None else terms):
        la, lbk = _log_coeff(k)
        ta = math.exp(la + k * lb + la10) / (k + 1)
        tb = math.exp(lbk + k * lb + la4) / (k + 1)
        parts += [ta, -tb]
        mag += ta + tb
        k += 1
        if terms is None and k > k_peak and ta < tol * mag and tb < tol * mag:
            break
    return math.fsum(parts), k


def documented_terms(L):
    """the number of terms the library documents for the Saito-Foley series ('25 * pore radius ensures that layer convergence is achieved')"""
    return max(1, int(L * 25))


def hk_phi_cylinder(L, T, ads, mat, terms=None):
    """3/4 pi N_A (n_h A_gh + n_g A_gg) / d_0^4  *  saito_foley_sum(d_0 / L)"""
    d_g, d_h = ads['molecular_diameter'], mat['molecular_diameter']
    n_g, n_h = ads['surface_density'], mat['surface_density']
    a_gg, a_gh = dispersion_constants(ads, mat)
    d_0 = (d_g + d_h) / 2
    return 0.75 * math.pi * N_A / (R_GAS * T) * (n_h * a_gh + n_g * a_gg) / (d_0 * NM) ** 4 * saito_foley_sum(d_0 / L, terms)[0]


def hk_phi_sphere(L, T, ads, mat):
    """Cheng & Yang 1994: 6 (N_1 eps12 + N_2 eps22) L^3 / (L - d_0)^3 [ -(d_0/L)^6 (T_1/12 + T_2/8) + (d_0/L)^12 (T_3/90 + T_4/80) ],
    s = (L - d_0) / L,  T_1 = (1-s)^-3 - (1+s)^-3,  T_2 = (1+s)^-2 - (1-s)^-2,  T_3 = (1-s)^-9 - (1+s)^-9,  T_4 = (1+s)^-8 - (1-s)^-8,
    N_1 = 4 pi L^2 n_h,  N_2 = 4 pi (L - d_0)^2 n_g,  eps12 = A_gh / (4 d_0^6),  eps22 = A_gg / (4 d_g^6)"""
    d_g, d_h = ads['molecular_diameter'], mat['molecular_diameter']
    n_g, n_h = ads['surface_density'], mat['surface_density']
    a_gg, a_gh = dispersion_constants(ads, mat)
    d_0 = (d_g + d_h) / 2
    s = (L - d_0) / L
    t1 = (1 - s) ** -3 - (1 + s) ** -3
    t2 = (1 + s) ** -2 - (1 - s) ** -2
    t3 = (1 - s) ** -9 - (1 + s) ** -9
    t4 = (1 + s) ** -8 - (1 - s) ** -8
    n1 = 4 * math.pi * (L * NM) ** 2 * n_h
    n2 = 4 * math.pi * ((L - d_0) * NM) ** 2 * n_g
    e12, e22 = a_gh / (4 * (d_0 * NM) ** 6), a_gg / (4 * (d_g * NM) ** 6)
    return N_A / (R_GAS * T) * 6 * (n1 * e12 + n2 * e22) / s ** 3 * (-(d_0 / L) ** 6 * (t1 / 12 + t2 / 8) + (d_0 / L) ** 12 * (t3 / 90 + t4 / 80))


HK_PHI = {'slit': hk_phi_slit, 'cylinder': hk_phi_cylinder, 'sphere': hk_phi_sphere}


def radius_of_width(geo, w, d_h):
    """reported pore width (between the surfaces of the wall atoms) -> the L of the equations"""
    return w + d_h if geo == 'slit' else (w + d_h) / 2


# ------------------------------------------------------------------ regimes of the layer count
def regime(geo, w, d_g):
    """name of the layer-count regime a pore of (reported) width w belongs to.  w / d_g = number of guest diameters across the pore."""
    x = w / d_g
    if geo == 'slit':
        return 'one-layer' if x < 2 else 'M=%d..%d' % (int(x), int(x) + 1)
    m = int((x - 1) / 2) + 1
    axial = ((x - 1) / 2) % 1.0 < 0.5
    return 'M=%d,%s' % (m, 'axial' if axial else 'ring')


def regime_widths(rng, geo, d_g, w_lo, w_hi, per_regime=2, eps=1e-6):
    """widths (nm) in EVERY regime of the layer count between w_lo and w_hi: the unit intervals j <= w / d_g < j + 1 (for cylinder and
    sphere: odd j = the innermost layer is the single axial molecule, even j = a ring; M = int((j - 1) / 2) + 1; for the slit the
    one-layer formula holds for j = 1 and the average over M = w / d_g layers from j = 2 on), each with points just inside both
    ends (relative distance eps of the interval), and `per_regime` random interior points."""
    out = []
    j = max(1, int(math.floor(w_lo / d_g)))
    while j * d_g < w_hi:
        lo, hi = max(w_lo, j * d_g), min(w_hi, (j + 1) * d_g)
        if hi - lo > 4 * eps * d_g:
            pts = [lo + eps * d_g, hi - eps * d_g] + [rng.uniform(lo + 0.02 * (hi - lo), hi - 0.02 * (hi - lo)) for _ in range(per_regime)]
            out += [(w, j) for w in pts]
        j += 1
    return sorted(out)
