"""py2v_dbshape: control skeletons of pygaps/parsing/sqlite.py, extracted from the AST (fail-closed). (C08 / C09)

1. `with_connection`: the try / except / else / finally statement of the wrapper as data - which exception classes every handler
   names and which connection calls (rollback / commit / close / raise / return) every block makes, in source order.
   Db/DbConn.v gives it the semantics of Python's try statement; the theorems "the hand-written with_conn IS this skeleton" and
   "the connection is closed on every path" are about the generated value, so a wrapper that is edited breaks them.
2. `isotherms_from_db`: the batch size of `grouped(<operand>, n)`, whether <operand> is the materialised `cursor.fetchall()` or the
   live cursor (which the loop body re-uses), and the number of cursor.execute calls before / inside the batch loop.
   Db/DbModel.v iso_get batches by the generated size; Db/DbBatch.v proves batched = plain retrieval for every size >= 1.

Anything outside the recognised shapes aborts (the stub left by vlib.regen does not compile).
Usage: py2v_dbshape.py <repo_src_dir> <out_dir>
"""
import ast
import os
import sys


class Unsupported(Exception):
    pass


XCLS = {'IntegrityError': 'XIntegrityError', 'InterfaceError': 'XInterfaceError', 'OperationalError': 'XOperationalError',
        'ProgrammingError': 'XProgrammingError', 'DatabaseError': 'XDatabaseError', 'Error': 'XSqliteError',
        'Exception': 'XException', 'BaseException': 'XBaseException'}


def is_call(n, obj, meth):
    return (isinstance(n, ast.Call) and isinstance(n.func, ast.Attribute) and n.func.attr == meth
            and isinstance(n.func.value, ast.Name) and n.func.value.id == obj)


def act(st):
    """one statement of the wrapper -> action name, or None for a statement without effect on the connection protocol"""
    if isinstance(st, ast.Expr) and isinstance(st.value, ast.Constant):
        return None                                     # docstring / comment string
    if isinstance(st, ast.Expr):
        c = st.value
        for m, a in (('rollback', 'ARollback'), ('commit', 'ACommit'), ('close', 'AClose')):
            if is_call(c, 'conn', m):
                if c.args or c.keywords:
                    raise Unsupported('line %d: conn.%s with arguments' % (st.lineno, m))
                return a
        if is_call(c, 'cursor', 'execute') and len(c.args) == 1 and isinstance(c.args[0], ast.Constant) \
                and str(c.args[0].value).strip().lower().replace(' ', '') == 'pragmaforeign_keys=on':
            return 'APragma'
    if isinstance(st, ast.Assign) and len(st.targets) == 1:
        t, v = st.targets[0], st.value
        if isinstance(t, ast.Name) and t.id == 'cursor' and is_call(v, 'conn', 'cursor'):
            return None
        if isinstance(t, ast.Name) and t.id == 'db_path':
            return None
        if isinstance(t, ast.Attribute) and isinstance(t.value, ast.Name) and t.value.id == 'conn' and t.attr == 'row_factory':
            return None
        if isinstance(t, ast.Name) and t.id == 'conn' and is_call(v, 'sqlite3', 'connect'):
            return 'AConnect'
        if isinstance(t, ast.Name) and t.id == 'ret' and isinstance(v, ast.Call) and isinstance(v.func, ast.Name) and v.func.id == 'func' \
                and any(k.arg == 'cursor' and isinstance(k.value, ast.Name) and k.value.id == 'cursor' for k in v.keywords):
            return 'ABody'
    if isinstance(st, ast.Raise):
        if st.exc is None:
            return 'AReraise'
        if isinstance(st.exc, ast.Call) and isinstance(st.exc.func, ast.Name) and st.exc.func.id == 'ParsingError':
            return 'ARaiseParsing'
    if isinstance(st, ast.Return) and isinstance(st.value, ast.Name) and st.value.id == 'ret':
        return 'AReturn'
    raise Unsupported('line %d: statement outside the recognised wrapper vocabulary: %s' % (st.lineno, ast.unparse(st)[:120]))


def acts(stmts):
    return [a for a in (act(s) for s in stmts) if a is not None]


def classes(t):
    if t is None:
        return ['XBaseException']
    if isinstance(t, ast.Tuple):
        return [c for e in t.elts for c in classes(e)]
    name = t.attr if isinstance(t, ast.Attribute) else t.id if isinstance(t, ast.Name) else None
    if isinstance(t, ast.Attribute) and not (isinstance(t.value, ast.Name) and t.value.id == 'sqlite3'):
        name = None
    if isinstance(t, ast.Name) and name not in ('Exception', 'BaseException'):
        name = None
    if name not in XCLS:
        raise Unsupported('line %d: except clause names %s' % (t.lineno, ast.unparse(t)))
    return [XCLS[name]]


def with_connection_shape(mod):
    wc = [n for n in mod.body if isinstance(n, ast.FunctionDef) and n.name == 'with_connection']
    if len(wc) != 1:
        raise Unsupported('with_connection not found')
    inner = [n for n in wc[0].body if isinstance(n, ast.FunctionDef)]
    if len(inner) != 1:
        raise Unsupported('with_connection: expected one inner function')
    body = list(inner[0].body)
    # the shared-cursor shortcut of nested calls: `if kwargs.get('cursor'): return func(*args, **kwargs)`
    first = body[0]
    if not (isinstance(first, ast.If) and ast.unparse(first.test) == "kwargs.get('cursor')" and len(first.body) == 1 and not first.orelse
            and isinstance(first.body[0], ast.Return) and ast.unparse(first.body[0].value) == 'func(*args, **kwargs)'):
        raise Unsupported('with_connection: the shared-cursor shortcut has another shape')
    body = body[1:]
    tries = [i for i, s in enumerate(body) if isinstance(s, ast.Try)]
    if len(tries) != 1:
        raise Unsupported('with_connection: expected exactly one try statement, found %d' % len(tries))
    ti = tries[0]
    tr = body[ti]
    for s in body[:ti] + body[ti + 1:]:
        if any(isinstance(x, (ast.Try, ast.With, ast.For, ast.While, ast.If)) for x in ast.walk(s)):
            raise Unsupported('line %d: control flow outside the try statement' % s.lineno)
    for blk in [tr.body, tr.orelse, tr.finalbody] + [h.body for h in tr.handlers]:
        for s in blk:
            if any(isinstance(x, (ast.Try, ast.With, ast.For, ast.While, ast.If)) for x in ast.walk(s)):
                raise Unsupported('line %d: nested control flow inside the wrapper' % s.lineno)
    hs = ['mkH [%s] [%s]' % ('; '.join(classes(h.type)), '; '.join(acts(h.body))) for h in tr.handlers]
    return 'mkWC [%s] [%s]\n    [%s]\n    [%s] [%s] [%s]' % (
        '; '.join(acts(body[:ti])), '; '.join(acts(tr.body)), ';\n     '.join(hs),
        '; '.join(acts(tr.orelse)), '; '.join(acts(tr.finalbody)), '; '.join(acts(body[ti + 1:])))


def batching(mod):
    calls = [(f, n) for f in ast.walk(mod) if isinstance(f, ast.FunctionDef)
             for n in ast.walk(f) if isinstance(n, ast.Call) and isinstance(n.func, ast.Name) and n.func.id == 'grouped']
    # nested function definitions would list a call twice; keep the innermost owner
    owners = {}
    for f, n in calls:
        owners[id(n)] = (f, n) if id(n) not in owners or f.lineno > owners[id(n)][0].lineno else owners[id(n)]
    calls = list(owners.values())
    if len(calls) != 1 or calls[0][0].name != 'isotherms_from_db':
        raise Unsupported('expected exactly one grouped(...) call, in isotherms_from_db; found %s' % [(f.name, n.lineno) for f, n in calls])
    fn, call = calls[0]
    loops = [s for s in fn.body if isinstance(s, ast.For) and s.iter is call]
    if len(loops) != 1:
        raise Unsupported('isotherms_from_db: grouped(...) is not the iterable of a top-level for loop')
    loop = loops[0]
    if len(call.args) != 2 or call.keywords or not (isinstance(call.args[1], ast.Constant) and type(call.args[1].value) is int and call.args[1].value >= 0):
        raise Unsupported('line %d: grouped(...) without a literal non-negative batch size' % call.lineno)
    size = call.args[1].value
    opnd = call.args[0]
    if not isinstance(opnd, ast.Name):
        raise Unsupported('line %d: grouped() over %s' % (call.lineno, ast.unparse(opnd)))
    assigns = [s for s in ast.walk(fn) if isinstance(s, ast.Assign) and any(isinstance(t, ast.Name) and t.id == opnd.id for t in s.targets)]
    if len(assigns) != 1:
        raise Unsupported('isotherms_from_db: %s is assigned %d times' % (opnd.id, len(assigns)))
    src = assigns[0].value
    if is_call(src, 'cursor', 'fetchall') and assigns[0] in fn.body and fn.body.index(assigns[0]) < fn.body.index(loop):
        operand = 'Materialised'
    elif ast.unparse(src) in ("kwargs['cursor']", "kwargs.get('cursor')") or is_call(src, 'cursor', 'execute'):
        operand = 'LiveCursor'
    else:
        raise Unsupported('line %d: grouped() over %s = %s' % (call.lineno, opnd.id, ast.unparse(src)))

    def executes(stmts, skip=()):
        return sum(1 for s in stmts if s not in skip for n in ast.walk(s) if is_call(n, 'cursor', 'execute'))
    before = executes(fn.body[:fn.body.index(loop)])
    inside = executes(loop.body)
    after = executes(fn.body[fn.body.index(loop) + 1:])
    nested_loops = [n for s in loop.body for n in ast.walk(s) if isinstance(n, (ast.For, ast.While)) for m in ast.walk(n) if is_call(m, 'cursor', 'execute')]
    if after or nested_loops:
        raise Unsupported('isotherms_from_db: cursor.execute after the batch loop or inside a nested loop')
    return size, operand, before, inside


def main():
    src, out = sys.argv[1], sys.argv[2]
    path = os.path.join(src, 'pygaps', 'parsing', 'sqlite.py')
    mod = ast.parse(open(path, encoding='utf8').read())
    try:
        shape = with_connection_shape(mod)
        size, operand, before, inside = batching(mod)
    except Unsupported as e:
        sys.stderr.write('py2v_dbshape: %s\n' % e)
        sys.exit(1)
    text = ('(* GENERATED by tools/py2v_dbshape.py from src/pygaps/parsing/sqlite.py - do not edit *)\n'
            'From Coq Require Import List.\nFrom PG Require Import Db.DbShapeTypes.\nImport ListNotations.\n\n'
            '(* with_connection: pre ; try ; handlers ; else ; finally ; statements after the try statement *)\n'
            'Definition wc_source : wcshape :=\n  %s.\n\n'
            '(* isotherms_from_db: `for rows in grouped(<operand>, n)` *)\n'
            'Definition iso_batch : nat := %d.\n'
            'Definition iso_batch_operand : batch_operand := %s.\n'
            'Definition iso_stmts_before_loop : nat := %d.\n'
            'Definition iso_stmts_per_batch : nat := %d.\n' % (shape, size, operand, before, inside))
    os.makedirs(out, exist_ok=True)
    p = os.path.join(out, 'DbShapeGen.v')
    if not os.path.exists(p) or open(p).read() != text:
        open(p, 'w').write(text)


if __name__ == '__main__':
    main()
