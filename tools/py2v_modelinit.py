"""py2v_modelinit: /repo/src/pygaps/modelling/base_model.py, __init__.py  ->  coq/Gen/ModelInitGen.v   (fail-closed)

WHICH OBJECT is a model's parameter dictionary?  Translated from the AST:
  * IsothermBaseModel.__init__, the `if parameters:` branch: `self.params` is bound to a FRESH dictionary filled by name from
    `parameters` (`self.params = {}` + a loop over self.param_names storing `parameters[param]`, a comprehension over
    self.param_names, `dict(parameters)`, `parameters.copy()`), or to the caller's object itself (`self.params = parameters`): Alias.
  * IsothermBaseModel.to_dict(): the value under 'parameters' is `self.params` itself (Alias) or a copy (Fresh).
  * fit() of the base class and of every subclass that overrides it: parameters are stored item by item INTO self.params
    (in place) - a rebinding `self.params = ...` inside fit is refused.
  * get_isotherm_model / model_from_dict forward the keyword dictionary unchanged (`model(**params)`,
    `get_isotherm_model(model_dict.pop('name'), **model_dict)`): the object under 'parameters' reaches __init__ as it is.
  * no model class overrides __init__.
Anything else aborts with file:line (exit 1): the generated file is then replaced by a stub that does not compile.
"""
import ast
import os
import sys


class Unsupported(Exception):
    pass


def bail(fn, node, msg):
    raise Unsupported('%s:%s: %s' % (fn, getattr(node, 'lineno', '?'), msg))


def strip_doc(body):
    if body and isinstance(body[0], ast.Expr) and isinstance(body[0].value, ast.Constant) and isinstance(body[0].value.value, str):
        return body[1:]
    return body


def is_validation(s):
    """a statement that can only raise: `for x in self.param_names: if x not in parameters: raise ...` / `if ...: raise ...`"""
    if isinstance(s, ast.For):
        return all(is_validation(b) for b in s.body) and not s.orelse
    if isinstance(s, ast.If):
        return all(isinstance(b, ast.Raise) for b in s.body) and not s.orelse
    return False


def copy_of(e, src):
    """is the expression a new dictionary with the entries of `src` (an unparsed expression)?"""
    u = ast.unparse(e)
    if u in ('dict(%s)' % src, '%s.copy()' % src, 'copy.copy(%s)' % src, 'copy.deepcopy(%s)' % src, '{**%s}' % src):
        return True
    if isinstance(e, ast.DictComp) and len(e.generators) == 1 and not e.generators[0].ifs:
        g = e.generators[0]
        it = ast.unparse(g.iter)
        if isinstance(g.target, ast.Name) and it in ('self.param_names', src) and ast.unparse(e.key) == g.target.id \
                and ast.unparse(e.value) == '%s[%s]' % (src, g.target.id):
            return True
    return False


def init_binding(fd, fn):
    body = strip_doc(fd.body)
    pops = [s for s in body if isinstance(s, ast.Assign) and ast.unparse(s) == "parameters = params.pop('parameters', None)"]
    if len(pops) != 1:
        bail(fn, fd, "__init__: `parameters = params.pop('parameters', None)` not found exactly once")
    i = body.index(pops[0])
    if i + 1 >= len(body) or not isinstance(body[i + 1], ast.If) or ast.unparse(body[i + 1].test) != 'parameters':
        bail(fn, fd, '__init__: `if parameters:` does not follow the pop')
    branch = body[i + 1]
    # no other statement of __init__ may bind self.params
    for s in body[:i + 1] + body[i + 2:]:
        for n in ast.walk(s):
            if isinstance(n, (ast.Assign, ast.AugAssign, ast.AnnAssign)) and 'self.params' in [ast.unparse(t).split('[')[0] for t in (n.targets if isinstance(n, ast.Assign) else [n.target])]:
                bail(fn, n, '__init__: self.params bound outside the `if parameters:` statement')
    stmts = [s for s in branch.body if not is_validation(s)]
    text = [ast.unparse(s) for s in stmts]
    # (1) fresh dictionary filled by name
    if len(stmts) == 2 and text[0] == 'self.params = {}' and isinstance(stmts[1], ast.For) and ast.unparse(stmts[1].iter) == 'self.param_names' \
            and isinstance(stmts[1].target, ast.Name) and not stmts[1].orelse and len(stmts[1].body) == 1:
        v = stmts[1].target.id
        inner = stmts[1].body[0]
        store = 'self.params[%s] = parameters[%s]' % (v, v)
        if ast.unparse(inner) == store:
            return 'Fresh', 'self.params = {}; for %s in self.param_names: %s' % (v, store)
        if isinstance(inner, ast.Try) and len(inner.body) == 1 and ast.unparse(inner.body[0]) == store and not inner.orelse and not inner.finalbody \
                and all(len(h.body) == 1 and isinstance(h.body[0], ast.Raise) for h in inner.handlers):
            return 'Fresh', 'self.params = {}; for %s in self.param_names: %s (KeyError re-raised)' % (v, store)
    # (2) one assignment
    if len(stmts) == 1 and isinstance(stmts[0], ast.Assign) and len(stmts[0].targets) == 1 and ast.unparse(stmts[0].targets[0]) == 'self.params':
        if copy_of(stmts[0].value, 'parameters'):
            return 'Fresh', text[0]
        if ast.unparse(stmts[0].value) == 'parameters':
            return 'Alias', text[0]
    bail(fn, branch, '__init__: parameter handling not in the translated subset: ' + ' ; '.join(t.split('\n')[0] for t in text))


def to_dict_binding(fd, fn):
    body = strip_doc(fd.body)
    if len(body) != 1 or not isinstance(body[0], ast.Return) or not isinstance(body[0].value, ast.Dict):
        bail(fn, fd, 'to_dict: not a single `return {...}`')
    for k, v in zip(body[0].value.keys, body[0].value.values):
        if isinstance(k, ast.Constant) and k.value == 'parameters':
            if ast.unparse(v) == 'self.params':
                return 'Alias', "'parameters': self.params"
            if copy_of(v, 'self.params'):
                return 'Fresh', "'parameters': " + ast.unparse(v)
            bail(fn, v, "to_dict: value under 'parameters': " + ast.unparse(v))
    bail(fn, fd, "to_dict: no 'parameters' entry")


def fit_in_place(fd, fn):
    stores = 0
    for n in ast.walk(fd):
        if isinstance(n, (ast.Assign, ast.AugAssign, ast.AnnAssign)):
            for t in (n.targets if isinstance(n, ast.Assign) else [n.target]):
                u = ast.unparse(t)
                if u == 'self.params':
                    bail(fn, n, 'fit: rebinding of self.params')
                if u.startswith('self.params['):
                    stores += 1
        if isinstance(n, ast.Call) and ast.unparse(n.func) in ('self.params.update', 'self.params.clear', 'self.params.pop', 'self.params.setdefault'):
            stores += 1
    if stores == 0:
        bail(fn, fd, 'fit: no store into self.params found')
    return stores


def translate(repo_src):
    d = os.path.join(repo_src, 'pygaps', 'modelling')
    fn = os.path.join(d, 'base_model.py')
    tree = ast.parse(open(fn, encoding='utf8').read())
    base = [c for c in tree.body if isinstance(c, ast.ClassDef) and c.name == 'IsothermBaseModel']
    if len(base) != 1:
        bail(fn, tree, 'class IsothermBaseModel')
    meths = {n.name: n for n in base[0].body if isinstance(n, ast.FunctionDef)}
    for m in ('__init__', 'to_dict', 'fit'):
        if m not in meths:
            bail(fn, base[0], 'method %s missing' % m)
        if meths[m].decorator_list:
            bail(fn, meths[m], 'decorator on ' + m)
    out = {}
    out['init'], out['init_src'] = init_binding(meths['__init__'], fn)
    out['to_dict'], out['to_dict_src'] = to_dict_binding(meths['to_dict'], fn)
    out['fit_sites'] = [('IsothermBaseModel', fit_in_place(meths['fit'], fn))]
    # subclasses: no __init__ / to_dict override; an overriding fit stores in place
    for f in sorted(os.listdir(d)):
        if not f.endswith('.py') or f in ('__init__.py', 'base_model.py'):
            continue
        f2 = os.path.join(d, f)
        t2 = ast.parse(open(f2, encoding='utf8').read())
        for c in t2.body:
            if isinstance(c, ast.ClassDef) and any(ast.unparse(b).endswith('IsothermBaseModel') for b in c.bases):
                for n in c.body:
                    if isinstance(n, ast.FunctionDef) and n.name in ('__init__', 'to_dict', '__new__', '__setattr__', '__getattribute__', '__getattr__'):
                        bail(f2, n, 'class %s overrides %s' % (c.name, n.name))
                    if isinstance(n, ast.FunctionDef) and n.name == 'fit':
                        out['fit_sites'].append((c.name, fit_in_place(n, f2)))
                    if isinstance(n, ast.Assign) and any(ast.unparse(t) == 'params' for t in n.targets) and ast.unparse(n.value) != 'None':
                        bail(f2, n, 'class %s: class-level params dictionary (shared by all instances)' % c.name)
    # factories forward the keyword dictionary
    fi = os.path.join(d, '__init__.py')
    ti = ast.parse(open(fi, encoding='utf8').read())
    funs = {n.name: n for n in ti.body if isinstance(n, ast.FunctionDef)}
    for name in ('get_isotherm_model', 'model_from_dict'):
        if name not in funs:
            bail(fi, ti, name + ' missing')
    g = funs['get_isotherm_model']
    if ast.unparse(strip_doc(g.body)[-1]) != 'return model(**params)' or g.args.kwarg is None or g.args.kwarg.arg != 'params':
        bail(fi, g, 'get_isotherm_model does not end with `return model(**params)`')
    for s in strip_doc(g.body)[:-1]:
        for n in ast.walk(s):
            if isinstance(n, ast.Name) and n.id == 'params':
                bail(fi, n, 'get_isotherm_model touches its keyword dictionary before the call')
    mfd = funs['model_from_dict']
    if [ast.unparse(s) for s in strip_doc(mfd.body)] != ["return get_isotherm_model(model_dict.pop('name'), **model_dict)"]:
        bail(fi, mfd, 'model_from_dict is not `return get_isotherm_model(model_dict.pop(\'name\'), **model_dict)`')
    return out


def emit(ir):
    L = ['(* GENERATED by tools/py2v_modelinit.py from /repo/src/pygaps/modelling/base_model.py and __init__.py - do not edit.',
         '   Which OBJECT is a model\'s parameter dictionary: the binding made by the constructor, by to_dict(), and how fit() stores. *)',
         'From Coq Require Import List String.', 'From PG Require Import Models.ParamHeap.', 'Import ListNotations.', 'Open Scope string_scope.', '',
         '(* IsothermBaseModel.__init__, branch `if parameters:` - %s *)' % ir['init_src'].replace('*)', '* )').replace('(*', '( *').replace('"', "'"),
         'Definition Base_init_params : binding := %s.' % ir['init'], '',
         '(* IsothermBaseModel.to_dict() - %s *)' % ir['to_dict_src'].replace('*)', '* )').replace('(*', '( *').replace('"', "'"),
         'Definition Base_to_dict_parameters : binding := %s.' % ir['to_dict'], '',
         '(* fit() stores the parameters item by item INTO self.params (never rebinds it): class, number of store sites *)',
         'Definition Fit_in_place_sites : list (string * nat) := [%s].' % '; '.join('("%s", %d)' % (c, n) for c, n in ir['fit_sites']), '',
         '(* get_isotherm_model(name, ** params) -> model( ** params); model_from_dict(d) -> get_isotherm_model(d.pop(\'name\'), ** d):',
         '   the object under \'parameters\' reaches __init__ unchanged; no model class overrides __init__ / to_dict *)',
         'Definition Factories_forward_parameters : bool := true.', '']
    return '\n'.join(L)


def main():
    repo_src, outdir = sys.argv[1], sys.argv[2]
    try:
        text = emit(translate(repo_src))
    except (Unsupported, SyntaxError, OSError) as e:
        sys.stderr.write('py2v_modelinit: unsupported construct: %s\n' % e)
        sys.exit(1)
    path = os.path.join(outdir, 'ModelInitGen.v')
    if not os.path.exists(path) or open(path).read() != text:
        open(path, 'w').write(text)


if __name__ == '__main__':
    main()
