"""one-off helper: restate selected lemmas of coq/Models/*.v as Theorems in coq/Props/CXX.v"""
import re, sys, os
COQ='/verif/coq'
def lemmas(path):
    txt=open(path).read()
    txt_nc=re.sub(r'\(\*.*?\*\)', lambda m: ' '*len(m.group(0)), txt, flags=re.S)
    out=[]
    for m in re.finditer(r"^(Lemma|Example)\s+([\w']+)((?:\s+(?:[\w']+|\([^)]*\)))*)\s*:\s(.*?)\.\s+Proof\b", txt_nc, flags=re.S|re.M):
        kw, name, binders, stmt = m.group(1), m.group(2), m.group(3), m.group(4)
        # comment immediately before
        pre=txt[:m.start()].rstrip()
        com=''
        if pre.endswith('*)'):
            com=pre[pre.rfind('(*'):]
        out.append((name, ' '.join(binders.split()), stmt, com, kw))
    return out
def theorem(name, binders, stmt, com, kw='Lemma'):
    b = ('forall %s,\n  ' % binders) if binders else ''
    s=''
    if com and len(com) < 600: s+=com+'\n'
    s+=('Example' if kw=='Example' else 'Theorem')+' %s : %s%s.\nProof. exact %s. Qed.\nPrint Assumptions %s.\n' % (name, b, stmt, ('@'+name) if False else name, name)
    return s
if __name__=='__main__':
    pid, header_comment, select = sys.argv[1], sys.argv[2], sys.argv[3]
    files=sys.argv[4:]
    sel=re.compile(select)
    mods=[]
    body=[]
    for f in files:
        mod=os.path.basename(f)[:-2]
        ls=[l for l in lemmas(os.path.join(COQ,'Models',os.path.basename(f))) if sel.search(l[0])]
        if not ls: continue
        mods.append('Models.'+mod)
        body.append('(* ======== %s ======== *)' % mod)
        body += [theorem(*l) for l in ls]
    head=('(* %s\n   Property theorems only; every statement is about the definitions GENERATED from /repo/src/pygaps/modelling (Gen/FormulasGen.v);\n'
          '   proofs live in coq/Models/*.v. *)\nFrom Coq Require Import Reals Lra List.\nFrom Coquelicot Require Import Coquelicot.\n'
          'From PG Require Import Models.PyReal Gen.FormulasGen %s.\nImport ListNotations.\nOpen Scope R_scope.\n\n') % (header_comment, ' '.join(mods))
    open(os.path.join(COQ,'Props',pid+'.v'),'w').write(head+'\n'.join(body))
