"""py2v_iso: fail-closed translator of the permanent-conversion methods of pyGAPS isotherms into Gallina.

Input : core/baseisotherm.py  (property `temperature`, method `convert_temperature`)
        core/pointisotherm.py (methods `convert`, `convert_pressure`, `convert_loading`, `convert_material`)
Output: Gen/IsoGen.v, a Section over a carrier N : Num, on top of the hand-written state record of Iso/IsoState.v.

The methods mutate `self`. They are translated by the same symbolic execution with join points as
py2v_units, in a state-and-exception monad: `self` is an ordinary re-assigned local (a record value), an
attribute assignment is a record update, and an exception carries the state reached when it was raised
(`SErr e s`), so that "what a refused call leaves behind" is part of the model.
`self.data_raw[key] = c_xxx(self.data_raw[key], ...)` becomes a column conversion `conv_col` (Iso/IsoState.v).
`if verbose: logger.info(...)` blocks are dropped (logging only); anything else unsupported aborts.

Usage: py2v_iso.py <repo_src_dir> <out_dir>
"""
import ast
import os
import sys

import py2v_units as U
from py2v_units import E, Unsupported, coerce, as_ostr, truthy

FIELDS = {  # attribute of self -> (coq field, type)
    'pressure_mode': ('pressure_mode', 'ostr'), 'pressure_unit': ('pressure_unit', 'ostr'),
    'loading_basis': ('loading_basis', 'ostr'), 'loading_unit': ('loading_unit', 'ostr'),
    'material_basis': ('material_basis', 'ostr'), 'material_unit': ('material_unit', 'ostr'),
    'temperature_unit': ('temperature_unit', 'ostr'), '_temperature': ('raw_temperature', 'num'),
    'adsorbate': ('iso_adsorbate', 'ads'), 'material': ('iso_material', 'mat'),
    'l_interpolator': ('l_interpolator', 'ocache'), 'p_interpolator': ('p_interpolator', 'ocache'),
}
COLS = {'pressure_key': 'col_p', 'loading_key': 'col_l'}
U.COQ_TY.update({'iso': 'iso', 'col': 'list N', 'ocache': 'option (cache N)', 'bool': 'bool'})
U.PARAM_TYPES.update({'self': 'iso', 'verbose': 'bool', 'pressure_mode': 'ostr', 'pressure_unit': 'ostr',
                      'loading_basis': 'ostr', 'loading_unit': 'ostr', 'material_basis': 'ostr', 'material_unit': 'ostr'})
PURE = {'temperature'}          # translated in the plain result monad (they do not assign to self)
METHODS = {}                    # name -> params (mutating methods already translated)

_old_coerce = U.coerce


def coerce2(e, ty):
    if ty == 'ocache' and e.ty == 'none':
        return 'None'
    if ty == 'onum' and e.ty == 'num':
        return f"(Some {e.text})"
    return _old_coerce(e, ty)


U.coerce = coerce2
coerce = coerce2


def is_self_attr(n, attr=None):
    return isinstance(n, ast.Attribute) and isinstance(n.value, ast.Name) and n.value.id == 'self' and (attr is None or n.attr == attr)


def is_data_col(n):
    """self.data_raw[self.pressure_key] -> 'col_p'"""
    if isinstance(n, ast.Subscript) and is_self_attr(n.value, 'data_raw') and is_self_attr(n.slice) and n.slice.attr in COLS:
        return COLS[n.slice.attr]
    return None


def only_logging(stmts):
    for s in stmts:
        if not (isinstance(s, ast.Expr) and isinstance(s.value, ast.Call) and isinstance(s.value.func, ast.Attribute)
                and isinstance(s.value.func.value, ast.Name) and s.value.func.value.id == 'logger'):
            return False
    return True


class TrSelf(U.Tr):
    """adds reads of self.<field> and calls on pure methods; used directly for pure methods"""

    def expr(self, n, env, binds):
        if is_self_attr(n) and n.attr in FIELDS and 'self' in env:
            f, ty = FIELDS[n.attr]
            return E(f"({f} {env['self'].text})", ty)
        if is_self_attr(n) and n.attr in PURE and 'self' in env:
            v = self.fresh('t')
            binds.append((v, f"(iso_{n.attr} {env['self'].text})"))
            return E(v, 'num')
        if isinstance(n, ast.Call) and isinstance(n.func, ast.Name) and n.func.id in U.FUNCS and n.args and \
                (is_data_col(n.args[0]) or (isinstance(n.args[0], ast.Name) and env.get(n.args[0].id, E('', '')).ty == 'col')):
            col = is_data_col(n.args[0])
            coltext = f"({col} {env['self'].text})" if col else env[n.args[0].id].text
            x = self.fresh('x')
            inner = ast.Call(func=n.func, args=[ast.Name(id=x, ctx=ast.Load())] + n.args[1:], keywords=n.keywords)
            env2 = dict(env); env2[x] = E(x, 'num')
            ib = []
            r = U.Tr.expr(self, inner, env2, ib)   # binds of the label arguments + the call itself (last)
            # everything that does not depend on x is hoisted outside; the call is the last bind
            call_v, call_c = ib[-1]
            outer = ib[:-1]
            for ob in outer:
                if x in ob[1].split():
                    raise Unsupported('column argument used outside the conversion call')
            binds.extend(outer)
            v = self.fresh('col')
            binds.append((v, f"(conv_col (fun {x} => {call_c}) {coltext})"))
            return E(v, 'col')
        if isinstance(n, ast.Attribute) and isinstance(n.value, ast.Name) and env.get(n.value.id, E('', '')).ty == 'iso' and n.attr not in FIELDS:
            raise Unsupported(f"self.{n.attr}")
        return super().expr(n, env, binds)

    def block(self, stmts, env, rest):
        if stmts:
            s = stmts[0]
            if isinstance(s, ast.If) and isinstance(s.test, ast.Name) and s.test.id == 'verbose':
                if not only_logging(s.body) or s.orelse:
                    raise Unsupported(f"line {s.lineno}: `if verbose:` block does more than logging")
                return self.block(stmts[1:], env, rest)
            if isinstance(s, ast.Expr) and only_logging([s]):
                return self.block(stmts[1:], env, rest)
        return super().block(stmts, env, rest)


class TrMethod(TrSelf):
    """mutating methods: state-and-exception monad"""
    OK = 'SOk'
    BINDC = 'sbindc'
    RUN = 'srun'

    def raise_(self, exc, env):
        return f"SErr {exc} {env['self'].text}"

    def bind_text(self, c, v, body, env):
        return f"sbind {env['self'].text} {c} (fun {v} =>\n {body})"

    def assigned(self, stmts):
        w = super().assigned(stmts)
        for st in stmts:
            for n in ast.walk(st):
                hit = False
                if isinstance(n, ast.Assign) and (is_self_attr(n.targets[0]) or is_data_col(n.targets[0])):
                    hit = True
                if isinstance(n, ast.Call) and is_self_attr(n.func) and n.func.attr in METHODS:
                    hit = True
                if hit and 'self' not in w:
                    w.append('self')
        return w

    def newself(self, text, env, cont):
        nm = self.fresh('self')
        env2 = dict(env); env2['self'] = E(nm, 'iso')
        return f"let {nm} := {text} in\n {cont(env2)}"

    def block(self, stmts, env, rest):
        if not stmts:
            return rest(env)
        s, tail = stmts[0], stmts[1:]
        cont = lambda e: self.block(tail, e, rest)
        if isinstance(s, ast.Assign) and len(s.targets) == 1 and is_self_attr(s.targets[0]):
            attr = s.targets[0].attr
            if attr not in FIELDS:
                raise Unsupported(f"line {s.lineno}: assignment to self.{attr}")
            f, ty = FIELDS[attr]
            binds = []; v = self.expr(s.value, env, binds)
            return self.wrap(binds, self.newself(f"(set_{f} {coerce(v, ty)} {env['self'].text})", env, cont), env)
        if isinstance(s, ast.Assign) and len(s.targets) == 1 and is_data_col(s.targets[0]):
            col = is_data_col(s.targets[0])
            binds = []; v = self.expr(s.value, env, binds)
            if v.ty != 'col':
                raise Unsupported(f"line {s.lineno}: data column assigned a non-column")
            return self.wrap(binds, self.newself(f"(set_{col} {v.text} {env['self'].text})", env, cont), env)
        if isinstance(s, ast.Expr) and isinstance(s.value, ast.Call) and is_self_attr(s.value.func) and s.value.func.attr in METHODS:
            name = s.value.func.attr
            params = METHODS[name]
            if s.value.args:
                raise Unsupported('positional args in method call')
            binds = []
            kw = {k.arg: self.expr(k.value, env, binds) for k in s.value.keywords}
            full = []
            for p, pty, default in params:
                if p in kw: a = kw[p]
                elif default is not None: a = default
                else: raise Unsupported(f"missing arg {p}")
                full.append(coerce(a, pty))
            nm = self.fresh('self')
            env2 = dict(env); env2['self'] = E(nm, 'iso')
            body = f"mbind ({name} {env['self'].text} " + " ".join(full) + f") (fun {nm} =>\n {cont(env2)})"
            return self.wrap(binds, body, env)
        if isinstance(s, ast.Return) and s.value is None:
            return f"SOk (@Return _ {self.sty} {env['self'].text})"
        if isinstance(s, ast.Try):
            # try: <body> except pgError as err: raise CalculationError(...) from err
            if len(s.handlers) != 1 or s.orelse or s.finalbody:
                raise Unsupported('try shape')
            h = s.handlers[0]
            if not (isinstance(h.type, ast.Name) and h.type.id == 'pgError' and len(h.body) == 1 and isinstance(h.body[0], ast.Raise)
                    and isinstance(h.body[0].exc, ast.Call) and h.body[0].exc.func.id == 'CalculationError'):
                raise Unsupported('except clause shape')
            W = self.assigned(s.body)
            for w in W:
                if w not in env:
                    raise Unsupported(f'try body introduces new local {w}')
            tys = {w: env[w].ty for w in W}

            def fall(e):
                if not W: return "SOk (Fall tt)"
                return "SOk (Fall (" + ", ".join(coerce(e[w], tys[w]) for w in W) + "))"
            old = self.sty
            self.sty = "Datatypes.unit" if not W else "(" + " * ".join(U.COQ_TY[tys[w]] for w in W) + ")"
            body = self.block(s.body, env, fall)
            self.sty = old
            env2 = dict(env); names = []
            for w in W:
                nm = self.fresh(w); names.append(nm); env2[w] = E(nm, tys[w])
            pat = "_" if not W else ("'(" + ", ".join(names) + ")" if len(names) > 1 else names[0])
            return f"sbindc (scatch_pg ({body})) (fun {pat} =>\n {cont(env2)})"
        return super().block(stmts, env, rest)

    def translate(self):
        fn = self.fn
        params = []
        args = fn.args.args
        defaults = [None] * (len(args) - len(fn.args.defaults)) + list(fn.args.defaults)
        env = {}
        for a, d in zip(args, defaults):
            ty = U.PARAM_TYPES[a.arg]
            dv = self.expr(d, {}, []) if d is not None else None
            if a.arg != 'self':
                params.append((a.arg, ty, dv))
            env[a.arg] = E(a.arg, ty)
        self.rty = 'iso'
        METHODS[fn.name] = params
        body = "srun self (" + self.block(fn.body, env, lambda e: f"SOk (@Return _ Datatypes.unit {e['self'].text})") + ")"
        sig = "(self : iso) " + " ".join(f"({p} : {U.COQ_TY[t]})" for p, t, _ in params)
        return f"Definition {fn.name} {sig} : sres iso iso :=\n {body}.\n"


def translate_pure(fn):
    tr = TrSelf(fn)
    env = {'self': E('self', 'iso')}
    tr.rty = 'num'
    body = "run (" + tr.block(fn.body, env, lambda e: "Err FellOffEnd") + ")"
    return f"Definition iso_{fn.name} (self : iso) : res N :=\n {body}.\n"


HEADER = """(* GENERATED by tools/py2v_iso.py from pygaps/core/baseisotherm.py and pygaps/core/pointisotherm.py
   -- do not edit; regenerated on every check run *)
From Coq Require Import QArith ZArith String List Bool.
From PG Require Import Lib.Num Lib.Py Gen.UnitsGen1 Units.AdsOracle Gen.UnitsGen2 Iso.IsoState.
Import ListNotations.
Open Scope string_scope.
Section Gen.
Variable N : Num.
Local Notation iso := (iso N).
Local Notation c_pressure := (c_pressure N).
Local Notation c_loading := (c_loading N).
Local Notation c_material := (c_material N).
Local Notation c_temperature := (c_temperature N).
"""


def find_method(tree, cls, name):
    for n in tree.body:
        if isinstance(n, ast.ClassDef) and n.name == cls:
            for m in n.body:
                if isinstance(m, ast.FunctionDef) and m.name == name:
                    # property setter shares the name: take the getter (decorated with @property) or the plain method
                    decs = [ast.unparse(d) for d in m.decorator_list]
                    if any(d.endswith('.setter') for d in decs):
                        continue
                    return m
    raise Unsupported(f"{cls}.{name} not found")


def strip_doc(fn):
    if fn.body and isinstance(fn.body[0], ast.Expr) and isinstance(fn.body[0].value, ast.Constant) and isinstance(fn.body[0].value.value, str):
        fn.body = fn.body[1:]
    return fn


def main():
    srcdir, outdir = sys.argv[1], sys.argv[2]
    out = [HEADER]
    try:
        # signatures of the converter functions (needed for keyword-argument resolution)
        for p in ('pygaps/units/converter_unit.py', 'pygaps/units/converter_mode.py'):
            U.translate_module(os.path.join(srcdir, p), None)
        # every table and function of the converter modules may be used by the methods: make them available applied to N
        out.append("\n".join(f"Local Notation {g} := ({g} N)." for g in list(U.GLOBALS) + list(U.FUNCS)
                             if g not in ('c_pressure', 'c_loading', 'c_material', 'c_temperature')) + "\n")
        base = ast.parse(open(os.path.join(srcdir, 'pygaps/core/baseisotherm.py'), encoding='utf8').read())
        point = ast.parse(open(os.path.join(srcdir, 'pygaps/core/pointisotherm.py'), encoding='utf8').read())
        out.append(translate_pure(strip_doc(U.rename_params(find_method(base, 'BaseIsotherm', 'temperature')))))
        out.append(TrMethod(strip_doc(U.rename_params(find_method(base, 'BaseIsotherm', 'convert_temperature')))).translate())
        for name in ('convert_pressure', 'convert_loading', 'convert_material', 'convert'):
            out.append(TrMethod(strip_doc(U.rename_params(find_method(point, 'PointIsotherm', name)))).translate())
    except (Unsupported, KeyError, SyntaxError, AttributeError, TypeError, IndexError) as e:
        sys.stderr.write(f"py2v_iso: UNSUPPORTED: {type(e).__name__}: {e}\n")
        sys.exit(3)
    text = "\n".join(out) + "\nEnd Gen.\n"
    path = os.path.join(outdir, 'IsoGen.v')
    if not os.path.exists(path) or open(path).read() != text:
        open(path, 'w').write(text)


if __name__ == '__main__':
    main()
