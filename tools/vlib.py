"""Shared machinery of the /verif checks: regenerate -> build -> obligations -> Coq case evaluation -> evidence.

Every check is `./check <ID> [--tier quick|thorough]` (see check.py); the per-property code lives in tools/props/cXX.py.
Run with /venv/bin/python, PYTHONPATH=/repo/src, PYTHONHASHSEED=0 (the ./check wrapper sets these).
"""
import fcntl
import json
import os
import re
import subprocess
import sys
import time
from fractions import Fraction

VERIF = os.path.dirname(os.path.dirname(os.path.abspath(__file__)))
COQ = os.path.join(VERIF, 'coq')
TOOLS = os.path.join(VERIF, 'tools')
REPO = os.environ.get('VERIF_REPO', '/repo')
REPO_SRC = os.path.join(REPO, 'src')
SCRATCH = os.path.join(VERIF, '.scratch')
NCPU = int(os.environ.get('VERIF_JOBS', '16'))
PER_FILE_TIMEOUT = int(os.environ.get('VERIF_COQC_TIMEOUT', '900'))   # a proof that hangs on a changed model counts as broken
CHECKER_CMD = ("coq_makefile -f _CoqProject -o Makefile && make -j16 Props/<ID>.vo  (Coq 8.16.1, full .vo build; "
               "Print Assumptions under every theorem of Props/<ID>.v)")

EXN = ['Ok', 'ParameterError', 'CalculationError', 'ParsingError', 'KeyError', 'TypeError',
       'ZeroDivisionError', 'ValueError', 'AttributeError', 'FellOffEnd']


# ------------------------------------------------------------------ translators
TRANSLATORS = [
    # (name, argv, outputs)
    ('py2v_units', [sys.executable, os.path.join(TOOLS, 'py2v_units.py'), REPO_SRC, os.path.join(COQ, 'Gen')],
     ['Gen/UnitsGen1.v', 'Gen/UnitsGen2.v']),
    ('py2v_iso', [sys.executable, os.path.join(TOOLS, 'py2v_iso.py'), REPO_SRC, os.path.join(COQ, 'Gen')],
     ['Gen/IsoGen.v']),
    ('py2v_modeliso', [sys.executable, os.path.join(TOOLS, 'py2v_modeliso.py'), REPO_SRC, os.path.join(COQ, 'Gen')],
     ['Gen/ModelIsoGen.v']),
    ('py2v_purity', [sys.executable, os.path.join(TOOLS, 'py2v_purity.py'), REPO_SRC, os.path.join(COQ, 'Gen')], ['Gen/PurityGen.v']),
    ('py2v_formulas', [sys.executable, os.path.join(TOOLS, 'py2v_formulas.py'), REPO_SRC, os.path.join(COQ, 'Gen')],
     ['Gen/FormulasGen.v']),
    ('py2v_charact', [sys.executable, os.path.join(TOOLS, 'py2v_charact.py'), REPO_SRC, os.path.join(COQ, 'Gen')],
     ['Gen/CharactGen.v']),
    ('py2v_hk', [sys.executable, os.path.join(TOOLS, 'py2v_hk.py'), REPO_SRC, os.path.join(COQ, 'Gen')], ['Gen/HkGen.v']),
    ('py2v_adsorbates', [sys.executable, os.path.join(TOOLS, 'py2v_adsorbates.py'), REPO_SRC, os.path.join(COQ, 'Gen')], ['Gen/AdsorbatesGen.v']),
    ('py2v_static', [sys.executable, os.path.join(TOOLS, 'py2v_static.py'), REPO_SRC, os.path.join(COQ, 'Gen')], ['Gen/AcquireGen.v']),
    ('py2v_adsmethods', [sys.executable, os.path.join(TOOLS, 'py2v_adsmethods.py'), REPO_SRC, os.path.join(COQ, 'Gen')], ['Gen/AdsMethodsGen.v']),
    ('py2v_tables', [sys.executable, os.path.join(TOOLS, 'py2v_tables.py'), REPO_SRC, os.path.join(COQ, 'Gen')], ['Gen/TablesGen.v']),
    ('py2v_xl', [sys.executable, os.path.join(TOOLS, 'py2v_xl.py'), REPO_SRC, os.path.join(COQ, 'Gen')], ['Gen/XlGen.v']),
    ('py2v_dbshape', [sys.executable, os.path.join(TOOLS, 'py2v_dbshape.py'), REPO_SRC, os.path.join(COQ, 'Gen')], ['Gen/DbShapeGen.v']),
    ('py2v_fitglue', [sys.executable, os.path.join(TOOLS, 'py2v_fitglue.py'), REPO_SRC, os.path.join(COQ, 'Gen')], ['Gen/FitGlueGen.v']),
    ('py2v_iastwrap', [sys.executable, os.path.join(TOOLS, 'py2v_iastwrap.py'), REPO_SRC, os.path.join(COQ, 'Gen')], ['Gen/IastWrapGen.v']),
    ('py2v_psdmeso', [sys.executable, os.path.join(TOOLS, 'py2v_psdmeso.py'), REPO_SRC, os.path.join(COQ, 'Gen')], ['Gen/PsdMesoGen.v']),
    ('py2v_bspline', [sys.executable, os.path.join(TOOLS, 'py2v_bspline.py'), REPO_SRC, os.path.join(COQ, 'Gen')], ['Gen/BsplineGen.v']),
    ('py2v_entryglue', [sys.executable, os.path.join(TOOLS, 'py2v_entryglue.py'), REPO_SRC, os.path.join(COQ, 'Gen')], ['Gen/EntryGlueGen.v']),
    ('py2v_modelinit', [sys.executable, os.path.join(TOOLS, 'py2v_modelinit.py'), REPO_SRC, os.path.join(COQ, 'Gen')], ['Gen/ModelInitGen.v']),
]


def regen(only=None):
    """Run the translators on /repo's current tree. Outputs are rewritten only when their text changes.
    Returns {name: None | error text}. A failing translator leaves a stub that does not compile, so that
    every obligation depending on its output is reported as broken (fail-closed)."""
    os.makedirs(os.path.join(COQ, 'Gen'), exist_ok=True)
    res = {}
    for name, argv, outs in TRANSLATORS:
        if only and name not in only:
            continue
        p = subprocess.run(argv, capture_output=True, text=True, timeout=300)
        if p.returncode != 0:
            res[name] = (p.stderr or p.stdout).strip()[-2000:]
            for o in outs:
                path = os.path.join(COQ, o)
                stub = "(* translator %s FAILED on the current source:\n%s\n*)\nTranslator_failed_closed.\n" % (
                    name, res[name].replace('*)', '* )'))
                if not os.path.exists(path) or open(path).read() != stub:
                    open(path, 'w').write(stub)
        else:
            res[name] = None
    return res


# ------------------------------------------------------------------ coq build
class Lock:
    def __enter__(self):
        self.f = open(os.path.join(VERIF, '.build.lock'), 'w')
        fcntl.flock(self.f, fcntl.LOCK_EX)
        return self

    def __exit__(self, *a):
        fcntl.flock(self.f, fcntl.LOCK_UN)
        self.f.close()


def _ensure_makefile():
    """_CoqProject lists every .v under coq/ (except Cases/); it is regenerated from the directory content, so
    nobody edits it by hand; the Makefile is regenerated whenever the list changes."""
    mk = os.path.join(COQ, 'Makefile')
    cp = os.path.join(COQ, '_CoqProject')
    files = []
    for root, dirs, fs in os.walk(COQ):
        dirs[:] = sorted(d for d in dirs if d not in ('Cases',))
        for f in sorted(fs):
            if f.endswith('.v') and not f.startswith('.'):
                files.append(os.path.relpath(os.path.join(root, f), COQ))
    text = ('-Q . PG\n-arg -w -arg -notation-overridden,-deprecated-syntactic-definition,-deprecated-hint-without-locality,'
            '-deprecated-instance-without-locality\n' + '\n'.join(sorted(files)) + '\n')
    if not os.path.exists(cp) or open(cp).read() != text:
        open(cp, 'w').write(text)
    if not os.path.exists(mk) or os.path.getmtime(mk) < os.path.getmtime(cp):
        subprocess.run(['coq_makefile', '-f', '_CoqProject', '-o', 'Makefile'], cwd=COQ, check=True,
                       capture_output=True)


class RepoLock:
    """checks read /repo (shared lock); tools/seed_eval.py, which applies a patch to /repo, takes it exclusively"""

    def __init__(self, exclusive=False):
        self.ex = exclusive

    def __enter__(self):
        self.f = open(os.path.join(VERIF, '.repo.lock'), 'w')
        if not os.environ.get('VERIF_NOLOCK'):
            # a gate taken first makes the lock fair: a waiting exclusive holder (seed evaluation) stops NEW readers
            g = open(os.path.join(VERIF, '.repo.gate'), 'w')
            fcntl.flock(g, fcntl.LOCK_EX)
            fcntl.flock(self.f, fcntl.LOCK_EX if self.ex else fcntl.LOCK_SH)
            fcntl.flock(g, fcntl.LOCK_UN)
            g.close()
        return self

    def __exit__(self, *a):
        fcntl.flock(self.f, fcntl.LOCK_UN)
        self.f.close()


_DECL = re.compile(r'^\s*(?:Local\s+|Global\s+)?(Theorem|Lemma|Example|Corollary|Fact|Remark|Proposition|Definition|Fixpoint)\s+([A-Za-z_][\w\']*)')


def enclosing_decl(vfile, line):
    try:
        lines = open(os.path.join(COQ, vfile), encoding='utf8', errors='replace').read().split('\n')
    except OSError:
        return None
    for i in range(min(line, len(lines)) - 1, -1, -1):
        m = _DECL.match(lines[i])
        if m:
            return m.group(2)
    return None


def parse_failures(log):
    out = []
    for m in re.finditer(r'File "\./([^"]+)", line (\d+), characters [\d-]+:\n((?:.*\n){0,6})', log):
        f, ln, msg = m.group(1), int(m.group(2)), m.group(3)
        if 'Warning' in msg.split('\n')[0]:
            continue
        out.append({'file': f, 'line': ln, 'decl': enclosing_decl(f, ln), 'message': msg.strip()[:400]})
    return out


def coq_build(targets, timeout=3000):
    """make the given .vo targets (with everything they depend on). Returns dict(ok, log, failures, wall_s)."""
    t0 = time.time()
    with Lock():
        _ensure_makefile()
        p = subprocess.run(['timeout', str(timeout), 'make', '-j%d' % NCPU, '-k', 'COQC=timeout %d coqc' % PER_FILE_TIMEOUT] + list(targets), cwd=COQ,
                           capture_output=True, text=True)
    log = p.stdout + p.stderr
    ok = p.returncode == 0
    fails = parse_failures(log)
    if not ok and not fails:
        fails = [{'file': None, 'line': 0, 'decl': None, 'message': log.strip()[-600:]}]
    return {'ok': ok, 'log': log, 'failures': fails, 'wall_s': time.time() - t0}


def props_theorems(pid):
    """Names of the property theorems stated in Props/<pid>.v (the proof obligations of the property)."""
    txt = open(os.path.join(COQ, 'Props', pid + '.v'), encoding='utf8').read()
    return re.findall(r'^(?:Theorem|Example)\s+([A-Za-z_][\w\']*)', txt, flags=re.M)


def props_assumptions(pid):
    """Print Assumptions output of every theorem in Props/<pid>.v, as {theorem: [axiom names]}.
    The output of coqc is cached beside the .vo and refreshed whenever the .vo is newer."""
    vo = os.path.join(COQ, 'Props', pid + '.vo')
    out = os.path.join(COQ, 'Props', pid + '.out')
    if not os.path.exists(out) or os.path.getmtime(out) < os.path.getmtime(vo):
        with Lock():
            p = subprocess.run(['timeout', '1800', 'coqc', '-Q', '.', 'PG', 'Props/%s.v' % pid], cwd=COQ,
                               capture_output=True, text=True)
        if p.returncode != 0:
            return None, (p.stdout + p.stderr)
        open(out, 'w').write(p.stdout)
    txt = open(out).read()
    names = [m for m in re.findall(r'^Print Assumptions\s+([\w\']+)\.', open(os.path.join(COQ, 'Props', pid + '.v')).read(), flags=re.M)]
    blocks = re.split(r'^(?=Axioms:|Closed under the global context)', txt, flags=re.M)
    blocks = [b for b in blocks if b.startswith('Axioms:') or b.startswith('Closed under')]
    res = {}
    for n, b in zip(names, blocks):
        if b.startswith('Closed'):
            res[n] = []
        else:
            res[n] = sorted({x for x in re.findall(r'^([A-Za-z_][\w\.\']*)', b, flags=re.M) if x != 'Axioms'})
    return res, txt


FORBIDDEN = re.compile(r'\b(Admitted|admit|Axiom|Axioms|Parameter|Parameters|Conjecture|Hypothesis|Variable|Variables|Hypotheses)\b|Unset\s+Guard|bypass_check|type-in-type|impredicative-set|Admit Obligations')


def grep_gate():
    """No Admitted/admit/Axiom/Parameter/Conjecture anywhere; Variable/Hypothesis only inside a Section.
    Returns a list of offending 'file:line: text'."""
    bad = []
    for root, _, files in os.walk(COQ):
        if os.path.basename(root) == 'Cases':
            continue
        for fn in files:
            if not fn.endswith('.v'):
                continue
            path = os.path.join(root, fn)
            depth = 0
            txt = open(path, encoding='utf8', errors='replace').read()
            # strip comments (non-nested approximation, nested handled by loop)
            prev = None
            while prev != txt:
                prev = txt
                txt = re.sub(r'\(\*(?:(?!\(\*|\*\)).|\n)*?\*\)', lambda m: '\n' * m.group(0).count('\n'), txt)
            for i, line in enumerate(txt.split('\n'), 1):
                if re.match(r'\s*Section\b', line):
                    depth += 1
                if re.match(r'\s*End\b', line) and depth > 0:
                    depth -= 1
                for m in FORBIDDEN.finditer(line):
                    w = m.group(0)
                    if w in ('Variable', 'Variables', 'Hypothesis', 'Hypotheses') and depth > 0:
                        continue
                    if '"' in line and re.search(r'"[^"]*' + re.escape(w) + r'[^"]*"', line):
                        continue
                    bad.append('%s:%d: %s' % (os.path.relpath(path, COQ), i, line.strip()[:120]))
    proj = open(os.path.join(COQ, '_CoqProject')).read()
    if re.search(r'type-in-type|impredicative-set|-vos', proj):
        bad.append('_CoqProject: forbidden flag')
    return bad


# ------------------------------------------------------------------ evaluating the model inside Coq
def qlit(x):
    """exact Coq Q literal of a Python float / int / Fraction"""
    fr = Fraction(x)
    return '(%d # %d)' % (fr.numerator, fr.denominator)


def fme(x):
    """binary64 -> (mantissa, exponent) with x == m * 2**e exactly"""
    import math
    x = float(x)
    if x == 0.0 or x != x or x in (float('inf'), float('-inf')):
        return (0, 0)
    m, e = math.frexp(x)
    m = int(m * (1 << 53)); e -= 53
    while m % 2 == 0:
        m //= 2; e += 1
    return (m, e)


def flit(x):
    """Coq Q term equal to the float exactly, cheap to parse: fl m e (Lib/Show.v)"""
    m, e = fme(x)
    return '(fl (%d) (%d))' % (m, e)


def ostr(s):
    if s is None:
        return 'None'
    return '(Some "%s")' % s.replace('"', '""')


def parse_nested(txt):
    """parse Coq's printing of nested lists of integers: [[1; (-2)]; []] -> python lists"""
    txt = re.sub(r'\((-\d+)\)', r'\1', txt.replace('%Z', ''))
    i = txt.index('[')
    toks = re.findall(r'\[|\]|-?\d+', txt[i:])
    stack = [[]]
    for t in toks:
        if t == '[':
            stack.append([])
        elif t == ']':
            done = stack.pop()
            stack[-1].append(done)
            if len(stack) == 1:
                break
        else:
            stack[-1].append(int(t))
    return stack[0][0]


def run_coq_cases(name, header, show_def, terms, per_file=400, timeout=900, nested=False):
    """Evaluate `show_def` (a Coq function name or term, : case -> (Z*Z*Z) or similar tuple of integers) on every
    term by vm_compute, in parallel files. Returns a list (same order) of tuples of ints, or raises RuntimeError.
    Each file prints ONE list of integer tuples; parsing is by regex over the whole output (robust to line wrapping)."""
    cdir = os.path.join(COQ, 'Cases')
    os.makedirs(cdir, exist_ok=True)
    files = []
    for k in range(0, len(terms), per_file):
        chunk = terms[k:k + per_file]
        fn = os.path.join(cdir, '%s_%d_%d.v' % (name, os.getpid(), k // per_file))
        with open(fn, 'w') as f:
            f.write(header + '\nSet Printing Depth 10000000.\nSet Printing Width 1000000.\n')
            f.write('Definition cases := [\n' + ';\n'.join(chunk) + '\n].\n')
            f.write('Eval vm_compute in (List.map (%s) cases).\n' % show_def)
        files.append((fn, len(chunk)))
    procs = []
    results = [None] * len(files)
    idx = 0
    running = []
    env = dict(os.environ)

    def launch(i):
        fn = files[i][0]
        cmd = 'ulimit -s unlimited 2>/dev/null; exec timeout %d coqc -Q . PG %s' % (timeout, os.path.relpath(fn, COQ))
        return subprocess.Popen(['bash', '-c', cmd], cwd=COQ, stdout=subprocess.PIPE, stderr=subprocess.PIPE, text=True, env=env)
    pending = list(range(len(files)))
    while pending or running:
        while pending and len(running) < NCPU:
            i = pending.pop(0)
            running.append((i, launch(i)))
        i, p = running.pop(0)
        out, err = p.communicate()
        if p.returncode != 0:
            for _, q in running:
                q.kill()
            raise RuntimeError('coqc failed on %s: %s' % (files[i][0], (err or out)[-1500:]))
        if nested:
            vals = parse_nested(out.replace('\n', ' '))
        else:
            flat = re.sub(r'\((-\d+)\)', r'\1', out.replace('%Z', '').replace('\n', ' '))
            tup = re.findall(r'\(((?:-?\d+)(?:\s*,\s*-?\d+)+)\)', flat)
            vals = [tuple(int(x) for x in t.split(',')) for t in tup]
        if len(vals) != files[i][1]:
            raise RuntimeError('coqc output of %s: expected %d results, parsed %d\n%s' % (files[i][0], files[i][1], len(vals), out[:500]))
        results[i] = vals
    for fn, _ in files:
        for ext in ('.v', '.vo', '.glob', '.vok', '.vos'):
            try:
                os.remove(fn[:-2] + ext)
            except OSError:
                pass
        try:
            os.remove(os.path.join(os.path.dirname(fn), '.' + os.path.basename(fn)[:-2] + '.aux'))
        except OSError:
            pass
    return [v for r in results for v in r]


def q_of(num, den):
    return Fraction(num, den) if den else None


def close(py, q, rtol=1e-11, atol=1e-300):
    """python float vs exact model value"""
    try:
        qf = float(q)
    except OverflowError:
        return False
    if py != py:
        return False
    return abs(py - qf) <= rtol * max(abs(py), abs(qf)) + atol


def exn_class(e):
    n = type(e).__name__
    return n if n in EXN else 'other:' + n


# ------------------------------------------------------------------ known findings, evidence, verdict
def load_known():
    p = os.path.join(VERIF, 'known_findings.json')
    if not os.path.exists(p):
        return {'findings': [], 'fixed': []}
    return json.load(open(p))


class Report:
    """Collects what one run of a check covered; writes the evidence file; prints the verdict lines."""

    def __init__(self, pid, tier, seed):
        self.pid, self.tier, self.seed = pid, tier, seed
        self.t0 = time.time()
        self.cov = {'evaluations': 0, 'distinct_nontrivial': 0, 'rule': '', 'samples': [], 'obligations': 0, 'discharged': 0,
                    'checker_cmd': CHECKER_CMD.replace('<ID>', pid), 'trusted_base': []}
        self.assumptions = []
        self.violations = []      # dicts: {kind, what, replay(dict)}
        self.known_hits = {}      # finding id -> (what, count)
        self.broken = []          # names of obligations / correspondences that no longer check
        self.known = [f for f in load_known().get('findings', []) if f.get('property') == pid]

    # --- failures found on the implementation
    def failure(self, tag, what, replay):
        """A concrete input on which the property fails on the implementation. tag is computed by the
        property's classifier from the failing input; it is matched against known_findings.json."""
        for f in self.known:
            if f['tag'] == tag:
                h = self.known_hits.setdefault(f['id'], [f['what'], 0, replay])
                h[1] += 1
                return
        if len(self.violations) < 50:
            self.violations.append({'kind': 'failing-input', 'tag': tag, 'what': what, 'replay': replay})

    def broken_obligation(self, name, detail):
        self.broken.append({'name': name, 'detail': detail})

    def finish(self):
        os.makedirs(os.path.join(VERIF, 'evidence'), exist_ok=True)
        os.makedirs(os.path.join(VERIF, 'replays'), exist_ok=True)
        lines = []
        nviol = 0
        for fid, (what, n, rp) in sorted(self.known_hits.items()):
            lines.append('KNOWN-FINDING: property=%s %s [%s, %d case(s) this run]' % (self.pid, what, fid, n))
        concrete = self.violations
        for i, v in enumerate(concrete[:10]):
            path = os.path.join(VERIF, 'replays', '%s_%s_%d.json' % (self.pid, re.sub(r'\W+', '_', v['tag'])[:40], i))
            json.dump({'property': self.pid, 'kind': 'failing-input', 'tag': v['tag'], 'what': v['what'], 'replay': v['replay'],
                       'broken_obligations': self.broken, 'seed': self.seed}, open(path, 'w'), indent=1, default=str)
            lines.append('VIOLATION property=%s replay=%s' % (self.pid, path))
            nviol += 1
        if self.broken and not concrete:
            path = os.path.join(VERIF, 'replays', '%s_broken_obligation.json' % self.pid)
            json.dump({'property': self.pid, 'kind': 'broken-obligation', 'no_longer_checks': self.broken, 'seed': self.seed,
                       'note': 'the search over the implementation and the model found no concrete failing input'},
                      open(path, 'w'), indent=1, default=str)
            lines.append('VIOLATION property=%s replay=%s no-failing-input-found' % (self.pid, path))
            nviol += 1
        self.cov['known_findings_replayed'] = {k: v[1] for k, v in self.known_hits.items()}
        self.cov['broken_obligations'] = self.broken
        ev = {'property_id': self.pid, 'tier': self.tier, 'seed': self.seed, 'level': 'proof', 'coverage': self.cov,
              'assumptions': self.assumptions, 'wall_s': round(time.time() - self.t0, 2), 'violations': nviol}
        json.dump(ev, open(os.path.join(VERIF, 'evidence', self.pid + '.json'), 'w'), indent=1, default=str)
        for l in lines:
            print(l)
        print('%s %s tier=%s obligations=%d discharged=%d evaluations=%d violations=%d wall=%.1fs' % (
            'FAIL' if nviol else 'PASS', self.pid, self.tier, self.cov['obligations'], self.cov['discharged'],
            self.cov['evaluations'], nviol, time.time() - self.t0))
        return 1 if nviol else 0


def standard_proof_phase(rep, pid, extra_targets=()):
    """regenerate, build Props/<pid>.vo, collect obligations and axioms, run the grep gate.
    Returns True when every obligation is discharged."""
    tr = regen()
    # a translator that fails closed leaves a stub that does not compile: it is reported through the build of the
    # targets that depend on its output (other properties are not affected)
    rep.cov['translators'] = {k: ('ok' if v is None else 'FAILED: ' + v[-300:]) for k, v in tr.items()}
    b = coq_build(['Props/%s.vo' % pid] + list(extra_targets))
    names = props_theorems(pid)
    rep.cov['obligations'] = len(names)
    rep.cov['build_wall_s'] = round(b['wall_s'], 1)
    if not b['ok']:
        rep.cov['discharged'] = 0
        for f in b['failures']:
            rep.broken_obligation('%s (%s:%s)' % (f['decl'], f['file'], f['line']), f['message'])
        ok = False
    else:
        ass, txt = props_assumptions(pid)
        if ass is None:
            rep.cov['discharged'] = 0
            rep.broken_obligation('Props/%s.v' % pid, txt[-600:])
            ok = False
        else:
            rep.cov['discharged'] = len(names)
            axioms = sorted({a for v in ass.values() for a in v})
            rep.cov['trusted_base'] = ['Coq 8.16.1 kernel (coqc, vm_compute; no native_compute)'] + \
                ['axiom (Print Assumptions): ' + a for a in axioms]
            rep.cov['assumptions_per_theorem'] = {k: (v or ['Closed under the global context']) for k, v in ass.items()}
            ok = True
    bad = grep_gate()
    if bad:
        rep.broken_obligation('grep-gate', '; '.join(bad[:10]))
        ok = False
    rep.cov['samples'] = [{'obligation': n} for n in names[:40]]
    return ok
