"""py2v_iastwrap: the three helpers of /repo/src/pygaps/iast/pgiast.py built on the point calculation
   (iast_point_fraction, iast_binary_svp, iast_binary_vle)  ->  coq/Gen/IastWrapGen.v      (fail-closed)

The helpers are glue: argument checks, a conversion of gas fractions to partial pressures, a loop calling the point calculation for every
requested pressure / composition, a formula per returned row. The translator reads their bodies statement by statement into a small typed
functional language (S scalar, V vector, M list of rows, I list of isotherms, K natural number) and emits one Coq definition each over a
carrier `N : Num` (RNum: theorems, QNum: executed beside the implementation), with
    point    : list N -> res (list N)          iast_point(isotherms, ., branch=branch, verbose=., warningoff=warningoff, adsorbed_mole_fraction_guess=...)
    linspace : N -> N -> nat -> list N         numpy.linspace
as Section variables. Exceptions are the `res` monad: a loop that calls the point calculation is `mapM` (the first failing call ends the
helper with that error; no later call is made, no value is produced).

Statements understood (anything else aborts with file:line, exit 1 -> the generated file becomes a stub that does not compile):
  if <cond>: raise ParameterError(<text>)                         -> if cond then Err ParameterError else ...
  NAME = <vector / scalar / rows expression>                      -> let NAME := ... in ...     (re-binding a name shadows it)
  MAT = numpy.zeros((<len(V) | K>, 2))  followed (later) by
  for index, ROW in enumerate(<V or M name>): MAT[index, :] = <call of a helper / the point calculation>
                                                                  -> bind (mapM (fun ROW => call) ...) (fun MAT => ...)
  NAME = [<scalar expr over x[k], V[k]> for x in MAT]             -> let NAME := map (fun x => ...) MAT in ...
  if verbose: <calls of plot_* / logger.*>                        -> skipped (no effect on the returned value)
  return <call of the point calculation / helper>   |   return dict(k1=e1, k2=e2)  -> Ok (e1, e2)
Calls of iast_point / iast_point_fraction must hand `isotherms` on unchanged and every optional argument as `name=name`.
"""
import ast
import os
import sys
from fractions import Fraction


class Unsupported(Exception):
    pass


FN = ''


def bail(node, msg):
    raise Unsupported('%s:%s: %s' % (FN, getattr(node, 'lineno', '?'), msg))


PASS = ('branch', 'verbose', 'warningoff', 'adsorbed_mole_fraction_guess', 'ax')     # optional arguments handed through, not computed with
SIGS = {
    'iast_point_fraction': (['isotherms', 'gas_mole_fraction', 'total_pressure', 'branch', 'verbose', 'warningoff', 'adsorbed_mole_fraction_guess'],
                            {'isotherms': 'I', 'gas_mole_fraction': 'V', 'total_pressure': 'S'}, 'res (list N)'),
    'iast_binary_svp': (['isotherms', 'mole_fractions', 'pressures', 'branch', 'warningoff', 'adsorbed_mole_fraction_guess', 'verbose', 'ax'],
                        {'isotherms': 'I', 'mole_fractions': 'V', 'pressures': 'V'}, 'res (list N * list N)'),
    'iast_binary_vle': (['isotherms', 'total_pressure', 'branch', 'npoints', 'adsorbed_mole_fraction_guess', 'warningoff', 'verbose', 'ax'],
                        {'isotherms': 'I', 'total_pressure': 'S', 'npoints': 'K'}, 'res (list N * list N)'),
}
COQTY = {'S': 'N', 'V': 'list N', 'I': 'list (icomp N)', 'K': 'nat', 'M': 'list (list N)'}


def qlit(v, node):
    if isinstance(v, bool) or not isinstance(v, (int, float)):
        bail(node, 'constant %r' % (v,))
    fr = Fraction(v)
    return '(@nofQ N (%d # %d)%%Q)' % (fr.numerator, fr.denominator)


def ident(n):
    return {'fun': 'fun_', 'in': 'in_', 'at': 'at_', 'N': 'N_', 'point': 'point_', 'linspace': 'linspace_'}.get(n, n)


class Fun:
    def __init__(self, fd):
        self.fd = fd
        self.name = fd.name
        order, types, self.ret = SIGS[fd.name]
        a = fd.args
        if [x.arg for x in a.args] != order or a.vararg or a.kwarg or a.kwonlyargs or a.posonlyargs or fd.decorator_list:
            bail(fd, 'signature of %s: %s' % (fd.name, ast.unparse(a)))
        self.env = dict(types)
        self.params = [(n, types[n]) for n in order if n in types]
        self.zeros = {}          # matrix name -> (rows expression text, filled?)

    # ---- expressions
    def expr(self, e):
        """-> (type, coq)"""
        E = self.expr
        if isinstance(e, ast.Constant):
            return 'S', qlit(e.value, e)
        if isinstance(e, ast.Name):
            if e.id in self.env:
                if self.env[e.id] == 'M?':
                    bail(e, '%s is read before the loop that fills it' % e.id)
                return self.env[e.id], ident(e.id)
            bail(e, 'unknown name ' + e.id)
        if isinstance(e, ast.Subscript) and isinstance(e.slice, ast.Constant) and isinstance(e.slice.value, int) and not isinstance(e.slice.value, bool) \
                and 0 <= e.slice.value <= 9:
            t, v = E(e.value)
            if t != 'V':
                bail(e, 'index into a %s' % t)
            return 'S', '(ix N %s %d)' % (v, e.slice.value)
        if isinstance(e, ast.List) or isinstance(e, ast.Tuple):
            items = [E(x) for x in e.elts]
            if all(t == 'S' for t, _ in items):
                return 'V', '[%s]' % '; '.join(v for _, v in items)
            bail(e, 'list display of non-scalars')
        if isinstance(e, ast.BinOp) and type(e.op) in (ast.Add, ast.Sub, ast.Mult, ast.Div):
            o = {ast.Add: 'add', ast.Sub: 'sub', ast.Mult: 'mul', ast.Div: 'div'}[type(e.op)]
            (ta, a), (tb, b) = E(e.left), E(e.right)
            if ta == 'S' and tb == 'S':
                return 'S', '(n%s %s %s)' % (o, a, b)
            if ta == 'V' and tb == 'S':
                return 'V', '(map (fun v_ => n%s v_ %s) %s)' % (o, b, a)
            if ta == 'S' and tb == 'V':
                return 'V', '(map (fun v_ => n%s %s v_) %s)' % (o, a, b)
            if ta == 'V' and tb == 'V':
                return 'V', '(map2 (fun a_ b_ => n%s a_ b_) %s %s)' % (o, a, b)
            bail(e, 'operand shapes %s %s' % (ta, tb))
        if isinstance(e, ast.UnaryOp) and isinstance(e.op, ast.USub):
            t, a = E(e.operand)
            return (t, '(nopp %s)' % a) if t == 'S' else (t, '(map (fun v_ => nopp v_) %s)' % a)
        if isinstance(e, ast.Call):
            f = ast.unparse(e.func)
            kws = {k.arg: k.value for k in e.keywords}
            if f in ('numpy.asarray', 'numpy.array') and len(e.args) == 1 and (not kws or (list(kws) == ['dtype'] and ast.unparse(kws['dtype']) in ('float', 'numpy.float64'))):
                t, a = E(e.args[0])
                if t != 'V':
                    bail(e, '%s of a %s' % (f, t))
                return 'V', a
            if f in ('numpy.sum', 'sum') and len(e.args) == 1 and not kws:
                t, a = E(e.args[0])
                if t != 'V':
                    bail(e, 'sum of a %s' % t)
                return 'S', '(sumN N %s)' % a
            if f == 'numpy.linspace' and len(e.args) == 3 and not kws:
                (ta, a), (tb, b), (tc, c) = [E(x) for x in e.args]
                if (ta, tb, tc) != ('S', 'S', 'K'):
                    bail(e, 'numpy.linspace arguments')
                return 'V', '(linspace %s %s %s)' % (a, b, c)
            if f == 'numpy.concatenate' and len(e.args) == 1 and not kws and isinstance(e.args[0], (ast.List, ast.Tuple)):
                parts = [E(x) for x in e.args[0].elts]
                if not parts or any(t != 'V' for t, _ in parts):
                    bail(e, 'numpy.concatenate of non-vectors')
                return 'V', '(%s)%%list' % ' ++ '.join(v for _, v in parts)
            if isinstance(e.func, ast.Attribute) and e.func.attr == 'transpose' and not e.args and not kws and isinstance(e.func.value, ast.Call) \
                    and ast.unparse(e.func.value.func) == 'numpy.array' and len(e.func.value.args) == 1 and not e.func.value.keywords \
                    and isinstance(e.func.value.args[0], (ast.Tuple, ast.List)) and len(e.func.value.args[0].elts) == 2:
                (ta, a), (tb, b) = [E(x) for x in e.func.value.args[0].elts]
                if (ta, tb) != ('V', 'V'):
                    bail(e, 'numpy.array((., .)).transpose() of non-vectors')
                return 'M', '(map2 (fun a_ b_ => [a_; b_]) %s %s)' % (a, b)
            if f in ('iast_point', 'iast_point_fraction'):
                return 'R', self.call(e)
            bail(e, 'call ' + f)
        bail(e, 'expression ' + ast.unparse(e))

    def call(self, e):
        """a call of the point calculation or of the fraction helper -> coq of type res (list N)"""
        f = ast.unparse(e.func)
        npos = 2 if f == 'iast_point' else 3
        if len(e.args) != npos or ast.unparse(e.args[0]) != 'isotherms':
            bail(e, '%s must be called as %s(isotherms, ...)' % (f, f))
        for k in e.keywords:
            if k.arg is None or k.arg not in PASS or not (isinstance(k.value, ast.Name) and k.value.id == k.arg):
                bail(e, 'optional argument %s of %s is not handed through unchanged' % (ast.unparse(k), f))
        given = {k.arg for k in e.keywords}
        if not {'branch', 'warningoff', 'adsorbed_mole_fraction_guess'} <= given:
            bail(e, '%s is called without %s' % (f, sorted({'branch', 'warningoff', 'adsorbed_mole_fraction_guess'} - given)))
        t1, a1 = self.expr(e.args[1])
        if t1 != 'V':
            bail(e, 'second argument of %s is a %s' % (f, t1))
        if f == 'iast_point':
            return '(point %s)' % a1
        t2, a2 = self.expr(e.args[2])
        if t2 != 'S':
            bail(e, 'third argument of iast_point_fraction is a %s' % t2)
        return '(G_iast_point_fraction %s %s)' % (a1, a2)

    def cond(self, e):
        C = self.cond
        if isinstance(e, ast.BoolOp):
            op = '||' if isinstance(e.op, ast.Or) else '&&'
            return '(%s)' % (' %s ' % op).join(C(v) for v in e.values)
        if isinstance(e, ast.UnaryOp) and isinstance(e.op, ast.Not):
            return '(negb %s)' % C(e.operand)
        if isinstance(e, ast.Compare) and len(e.ops) == 1:
            l, r, op = e.left, e.comparators[0], e.ops[0]
            if isinstance(l, ast.Call) and ast.unparse(l.func) == 'len' and len(l.args) == 1 and isinstance(l.args[0], ast.Name) \
                    and self.env.get(l.args[0].id) in ('V', 'I', 'M') and isinstance(r, ast.Constant) and isinstance(r.value, int) and not isinstance(r.value, bool) \
                    and r.value >= 0 and isinstance(op, (ast.Eq, ast.NotEq)):
                t = '(Nat.eqb (length %s) %d)' % (ident(l.args[0].id), r.value)
                return t if isinstance(op, ast.Eq) else '(negb %s)' % t
            if isinstance(op, (ast.Eq, ast.NotEq)):
                (ta, a), (tb, b) = self.expr(l), self.expr(r)
                if ta == 'S' and tb == 'S':
                    t = '(neqb %s %s)' % (a, b)
                    return t if isinstance(op, ast.Eq) else '(negb %s)' % t
            bail(e, 'comparison ' + ast.unparse(e))
        if ast.unparse(e) in ("any((iso.pressure_mode.startswith('relative') for iso in isotherms))", "any(iso.pressure_mode.startswith('relative') for iso in isotherms)"):
            return '(existsb (fun iso => prefix "relative" (i_mode N iso)) isotherms)'
        bail(e, 'condition ' + ast.unparse(e))

    # ---- statements (continuation style: the translation of the remaining statements is the body of the let / bind)
    def block(self, stmts):
        if not stmts:
            bail(self.fd, '%s can fall off its end' % self.name)
        s, rest = stmts[0], stmts[1:]
        if isinstance(s, ast.If) and not s.orelse and len(s.body) == 1 and isinstance(s.body[0], ast.Raise):
            r = s.body[0]
            if not (isinstance(r.exc, ast.Call) and ast.unparse(r.exc.func) in ('ParameterError', 'CalculationError') and r.cause is None):
                bail(r, 'raise ' + ast.unparse(r))
            c = self.cond(s.test)
            return 'if %s then Err %s else\n    %s' % (c, ast.unparse(r.exc.func), self.block(rest))
        if isinstance(s, ast.If) and ast.unparse(s.test) == 'verbose' and not s.orelse:
            for b in s.body:
                if not (isinstance(b, ast.Expr) and isinstance(b.value, ast.Call) and (ast.unparse(b.value.func).startswith('plot_iast_') or ast.unparse(b.value.func).startswith('logger.'))):
                    bail(b, 'statement under `if verbose:` that is not a plot / log call')
            return self.block(rest)
        if isinstance(s, ast.Assign) and len(s.targets) == 1 and isinstance(s.targets[0], ast.Name):
            name = s.targets[0].id
            if name in PASS or name == 'isotherms':
                bail(s, 're-binding of %s' % name)
            v = s.value
            # MAT = numpy.zeros((rows, 2))
            if isinstance(v, ast.Call) and ast.unparse(v.func) == 'numpy.zeros':
                if not (len(v.args) == 1 and not v.keywords and isinstance(v.args[0], ast.Tuple) and len(v.args[0].elts) == 2 and ast.unparse(v.args[0].elts[1]) == '2'):
                    bail(s, 'numpy.zeros shape')
                self.zeros[name] = ast.unparse(v.args[0].elts[0])
                self.env[name] = 'M?'
                return self.block(rest)
            # NAME = [expr for x in MAT]
            if isinstance(v, ast.ListComp):
                if not (len(v.generators) == 1 and not v.generators[0].ifs and not v.generators[0].is_async and isinstance(v.generators[0].target, ast.Name)
                        and isinstance(v.generators[0].iter, ast.Name)):
                    bail(s, 'list comprehension')
                it = v.generators[0].iter.id
                x = v.generators[0].target.id
                if self.env.get(it) != 'M':
                    bail(s, 'comprehension over %s (%s)' % (it, self.env.get(it)))
                saved = self.env.get(x)
                self.env[x] = 'V'
                t, body = self.expr(v.elt)
                if saved is None:
                    del self.env[x]
                else:
                    self.env[x] = saved
                if t != 'S':
                    bail(s, 'comprehension element is a %s' % t)
                self.env[name] = 'V'
                return 'let %s := map (fun %s => %s) %s in\n    %s' % (ident(name), ident(x), body, ident(it), self.block(rest))
            t, c = self.expr(v)
            if t not in ('S', 'V', 'M'):
                bail(s, 'assignment of a %s' % t)
            self.env[name] = t
            return 'let %s := %s in\n    %s' % (ident(name), c, self.block(rest))
        if isinstance(s, ast.For):
            # for index, ROW in enumerate(ITER): MAT[index, :] = call
            if not (isinstance(s.target, ast.Tuple) and len(s.target.elts) == 2 and all(isinstance(x, ast.Name) for x in s.target.elts) and not s.orelse
                    and isinstance(s.iter, ast.Call) and ast.unparse(s.iter.func) == 'enumerate' and len(s.iter.args) == 1 and not s.iter.keywords
                    and isinstance(s.iter.args[0], ast.Name) and len(s.body) == 1):
                bail(s, 'loop shape')
            idx, row = s.target.elts[0].id, s.target.elts[1].id
            it = s.iter.args[0].id
            b = s.body[0]
            if not (isinstance(b, ast.Assign) and len(b.targets) == 1 and isinstance(b.targets[0], ast.Subscript) and isinstance(b.targets[0].value, ast.Name)
                    and isinstance(b.targets[0].slice, ast.Tuple) and len(b.targets[0].slice.elts) == 2 and isinstance(b.targets[0].slice.elts[0], ast.Name)
                    and b.targets[0].slice.elts[0].id == idx and isinstance(b.targets[0].slice.elts[1], ast.Slice)
                    and b.targets[0].slice.elts[1].lower is None and b.targets[0].slice.elts[1].upper is None and b.targets[0].slice.elts[1].step is None
                    and isinstance(b.value, ast.Call)):
                bail(b, 'loop body must be `MAT[%s, :] = <call of the point calculation>` and nothing else' % idx)
            mat = b.targets[0].value.id
            if self.env.get(mat) != 'M?' or mat not in self.zeros:
                bail(b, '%s is not a fresh numpy.zeros((rows, 2)) array' % mat)
            ity = self.env.get(it)
            if ity not in ('V', 'M'):
                bail(s, 'loop over %s (%s)' % (it, ity))
            rows = self.zeros[mat]
            if rows != 'len(%s)' % it and not (rows == 'npoints' and self.env.get('npoints') == 'K'):
                bail(s, 'the array %s has %s rows but the loop runs over %s' % (mat, rows, it))
            if row in self.env or idx in self.env:
                bail(s, 'loop variable shadows a name')
            self.env[row] = 'S' if ity == 'V' else 'V'
            if ast.unparse(b.value.func) not in ('iast_point', 'iast_point_fraction'):
                bail(b, 'loop body calls ' + ast.unparse(b.value.func))
            c = self.call(b.value)
            del self.env[row]
            self.env[mat] = 'M'
            return 'bind (mapM (fun %s => %s) %s) (fun %s =>\n    %s)' % (ident(row), c, ident(it), ident(mat), self.block(rest))
        if isinstance(s, ast.Return) and s.value is not None:
            if rest:
                bail(rest[0], 'statement after return')
            v = s.value
            if isinstance(v, ast.Call) and ast.unparse(v.func) in ('iast_point', 'iast_point_fraction'):
                return self.call(v)
            if isinstance(v, ast.Call) and ast.unparse(v.func) == 'dict' and not v.args and len(v.keywords) == 2 and all(k.arg for k in v.keywords):
                parts = [self.expr(k.value) for k in v.keywords]
                if any(t != 'V' for t, _ in parts):
                    bail(s, 'returned dictionary entries must be vectors')
                self.fields = [k.arg for k in v.keywords]
                return 'Ok (%s, %s)' % (parts[0][1], parts[1][1])
            bail(s, 'return ' + ast.unparse(v))
        bail(s, 'statement ' + ast.unparse(s).split('\n')[0])

    def emit(self):
        body = list(self.fd.body)
        if body and isinstance(body[0], ast.Expr) and isinstance(body[0].value, ast.Constant) and isinstance(body[0].value.value, str):
            body = body[1:]
        self.fields = None
        text = self.block(body)
        sig = ' '.join('(%s : %s)' % (ident(n), COQTY[t]) for n, t in self.params if not (self.name == 'iast_point_fraction' and t == 'I'))
        note = '' if not self.fields else '  (* returns dict(%s) as a pair *)' % ', '.join(self.fields)
        return 'Definition G_%s %s : %s :=%s\n    %s.' % (self.name, sig, self.ret, note, text)


def translate(repo_src):
    global FN
    FN = os.path.join(repo_src, 'pygaps', 'iast', 'pgiast.py')
    tree = ast.parse(open(FN, encoding='utf8').read())
    defs = {}
    for n in tree.body:
        if isinstance(n, ast.FunctionDef):
            if n.name in defs:
                bail(n, 'second definition of ' + n.name)
            defs[n.name] = n
        elif isinstance(n, ast.Assign) and any(ast.unparse(t) in SIGS or ast.unparse(t) == 'iast_point' for t in n.targets):
            bail(n, 'module-level re-binding of a helper')
    out = []
    for name in ('iast_point_fraction', 'iast_binary_svp', 'iast_binary_vle'):
        if name not in defs:
            raise Unsupported('%s: %s not found' % (FN, name))
        out.append(Fun(defs[name]).emit())
    if 'iast_point' not in defs:
        raise Unsupported('%s: iast_point not found' % FN)
    return out


def emit(defs):
    return ('(* GENERATED by tools/py2v_iastwrap.py from /repo/src/pygaps/iast/pgiast.py - do not edit.\n'
            '   iast_point_fraction, iast_binary_svp, iast_binary_vle over the point calculation `point` (iast_point with the isotherms, branch,\n'
            '   warningoff and starting guess handed through unchanged). Exceptions are the res monad; a loop of point calculations is mapM. *)\n'
            'From Coq Require Import QArith ZArith String List Bool.\nFrom PG Require Import Lib.Num Lib.Py Iast.IastGlue Iast.IastWrapPre.\n'
            'Import ListNotations.\nOpen Scope string_scope.\n\nSection Gen.\n  Variable N : Num.\n'
            '  Variable point : list N -> res (list N).\n  Variable linspace : N -> N -> nat -> list N.\n\n  '
            + '\n\n  '.join(d.replace('\n', '\n  ') for d in defs) + '\nEnd Gen.\n')


def main():
    repo_src, outdir = sys.argv[1], sys.argv[2]
    try:
        text = emit(translate(repo_src))
    except (Unsupported, SyntaxError, OSError) as e:
        sys.stderr.write('py2v_iastwrap: unsupported construct: %s\n' % e)
        sys.exit(1)
    path = os.path.join(outdir, 'IastWrapGen.v')
    if not os.path.exists(path) or open(path).read() != text:
        open(path, 'w').write(text)


if __name__ == '__main__':
    main()
