#!/bin/bash
# Parallel (re-)evaluation of seeded changes: tools/seed_eval_all.sh <workers> <tasks-file>
# tasks-file: lines "<PROP> <dir with patch.diff demo.py notes.txt> <name>". Every worker gets a private copy of /verif (with its
# compiled .vo files) and a private clone of /repo under /tmp/pe_<k>, so patched trees never meet; results go to /verif/seeded/<name>/
# and /tmp/seedres_<name>.json. The copies are removed at the end.
N=$1; TASKS=$2
for k in $(seq 1 $N); do
  (
    D=/tmp/pe_$$_$k; rm -rf $D; mkdir -p $D
    rsync -a --exclude .git --exclude Cases --exclude .scratch --exclude replays --exclude seeded_inbox --exclude seeded /verif/ $D/verif/
    git clone -q /repo $D/repo && cp /repo/src/pygaps/_version.py $D/repo/src/pygaps/_version.py
    awk -v n=$N -v k=$k 'NR % n == k % n' $TASKS | while read prop src name; do
      VERIF_JOBS=${VERIF_JOBS:-4} VERIF_ROOT=$D/verif VERIF_REPO=$D/repo python3 /verif/tools/seed_eval.py $prop $src $name > /tmp/seedres_$name.json 2>&1
    done
    rm -rf $D
  ) &
done
wait
