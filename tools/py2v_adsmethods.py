"""py2v_adsmethods: fail-closed translator of the thermodynamic property methods of pygaps.core.adsorbate.Adsorbate. (C20)

Input : <repo_src>/pygaps/core/adsorbate.py, class Adsorbate, methods
          molar_mass p_triple t_triple p_critical t_critical saturation_pressure surface_tension liquid_density
          liquid_molar_density gas_density gas_molar_density enthalpy_liquefaction  (+ the two pure aliases)
Output: <out_dir>/AdsMethodsGen.v : one Gallina definition per method, inside a Section over a carrier N : Num, an ORACLE
        `b : backend N` (Registry/Backend.v: what a CoolProp read returns after which update, None = any exception) and the
        user's numeric properties dictionary `props`.

Every method must have the shape
    if calculate:
        [if A and B: raise CalculationError(...)]
        try:    <reads of the backend state, each after a state.update(...) in the same try> ; return EXPR   |  v = EXPR
        except BaseException as err: _warn_reading_params(err); return self.<same method>(..., calculate=False)  |  v = self.<same>(...)
        [if unit is not None: v = c_unit(_PRESSURE_UNITS, v, 'Pa', unit)] ; [return v]
    try:    return self.get_prop("<key>") [* CONST]
    except ParameterError as err: _raise_calculation_error(err)
and is emitted as:  backend value (scaled as the code scales it), else the user property (scaled), else CalculationError.
Anything else aborts (exit 1); the obligations depending on the output then count as broken.

Usage: py2v_adsmethods.py <repo_src_dir> <out_dir>
"""
import ast
import os
import sys
from fractions import Fraction

METHODS = ['molar_mass', 'p_triple', 't_triple', 'p_critical', 't_critical', 'saturation_pressure', 'surface_tension',
           'liquid_density', 'liquid_molar_density', 'gas_density', 'gas_molar_density', 'enthalpy_liquefaction']
ALIASES = {'pressure_saturation': 'saturation_pressure', 'enthalpy_vaporisation': 'enthalpy_liquefaction'}
STATELESS = {'molar_mass', 'Ttriple', 'p_critical', 'T_critical'}   # reads that do not depend on the last update()
PTYPE = {'temp': 'N', 'unit': 'option string', 'press': 'option N', 'calculate': 'bool'}
RENAME = {'unit': 'py_unit'}


class Unsupported(Exception):
    pass


def fail(node, msg):
    raise Unsupported('adsorbate.py:%s: %s' % (getattr(node, 'lineno', '?'), msg))


def qlit(x):
    fr = Fraction(x)
    return '(@nofQ N (%d # %d))' % (fr.numerator, fr.denominator)


def is_self(n, attr=None):
    return isinstance(n, ast.Attribute) and isinstance(n.value, ast.Name) and n.value.id == 'self' and (attr is None or n.attr == attr)


class Ctx:
    def __init__(self, opt_params):
        self.k = 0
        self.inp = None            # current backend input (Coq term) after the last state.update in this try
        self.env = {}              # python local -> coq term of type N
        self.opt = set(opt_params)  # parameters of type option N (only usable after a truthiness test)

    def fresh(self, p='v'):
        self.k += 1
        return '%s_%d' % (p, self.k)


def num_expr(n, cx, binds):
    """numeric expression -> Coq term of type N; backend reads are hoisted into `binds` [(var, read term)]"""
    if isinstance(n, ast.Constant) and isinstance(n.value, (int, float)) and not isinstance(n.value, bool):
        return qlit(n.value)
    if isinstance(n, ast.Name):
        if n.id in cx.env:
            return cx.env[n.id]
        fail(n, 'unknown or untested variable %s in arithmetic' % n.id)
    if isinstance(n, ast.BinOp) and isinstance(n.op, (ast.Add, ast.Sub, ast.Mult, ast.Div)):
        a, b = num_expr(n.left, cx, binds), num_expr(n.right, cx, binds)
        if isinstance(n.op, ast.Div):
            if not (isinstance(n.right, ast.Constant) and n.right.value != 0):
                fail(n, 'division by a non-constant')
            return '(ndiv %s %s)' % (a, b)
        return '(%s %s %s)' % ({ast.Add: 'nadd', ast.Sub: 'nsub', ast.Mult: 'nmul'}[type(n.op)], a, b)
    if isinstance(n, ast.Call) and not n.keywords:
        f = n.func
        # self.backend.X()  (stateless reads only)
        if isinstance(f, ast.Attribute) and is_self(f.value, 'backend') and not n.args:
            if f.attr not in STATELESS:
                fail(n, 'self.backend.%s() read without a preceding update' % f.attr)
            v = cx.fresh()
            binds.append((v, '(b "%s" (@NoInput N))' % f.attr))
            return v
        # state.X() after state.update(...)
        if isinstance(f, ast.Attribute) and isinstance(f.value, ast.Name) and cx.env.get(f.value.id) == '<state>' and not n.args:
            if f.attr in STATELESS:
                inp = '(@NoInput N)'
            elif cx.inp is None:
                fail(n, 'state.%s() read without a preceding state.update in the same try' % f.attr)
            else:
                inp = cx.inp
            v = cx.fresh()
            binds.append((v, '(b "%s" %s)' % (f.attr, inp)))
            return v
        # CP.CoolProp.PropsSI('PTRIPLE', self.backend_name)
        if ast.unparse(f) == 'CP.CoolProp.PropsSI' and len(n.args) == 2 and isinstance(n.args[0], ast.Constant) \
                and isinstance(n.args[0].value, str) and is_self(n.args[1], 'backend_name'):
            v = cx.fresh()
            binds.append((v, '(b "PropsSI:%s" (@NoInput N))' % n.args[0].value))
            return v
    fail(n, 'unsupported expression %s' % ast.unparse(n))


def wrap(binds, body):
    for v, t in reversed(binds):
        body = '(obind %s (fun %s => %s))' % (t, v, body)
    return body


def quality(n):
    if isinstance(n, ast.Constant) and n.value in (0.0, 1.0):
        return '(%d)%%Z' % int(n.value)
    fail(n, 'vapour quality must be the constant 0.0 or 1.0')


def try_body(stmts, cx, result_var):
    """statements of a try body -> Coq term : option N (None = an exception reached the handler)"""
    if not stmts:
        if result_var and result_var in cx.env:
            return '(Some %s)' % cx.env[result_var]
        fail(None, 'try body falls through without a value')
    s, rest = stmts[0], stmts[1:]
    if isinstance(s, ast.Assign) and len(s.targets) == 1 and isinstance(s.targets[0], ast.Name):
        name = s.targets[0].id
        if is_self(s.value, 'backend'):
            cx.env[name] = '<state>'
            return try_body(rest, cx, result_var)
        binds = []
        e = num_expr(s.value, cx, binds)
        v = cx.fresh(name)
        cx.env[name] = v
        return wrap(binds, '(let %s := %s in %s)' % (v, e, try_body(rest, cx, result_var)))
    if isinstance(s, ast.Expr) and isinstance(s.value, ast.Call) and isinstance(s.value.func, ast.Attribute) \
            and s.value.func.attr == 'update' and isinstance(s.value.func.value, ast.Name) and cx.env.get(s.value.func.value.id) == '<state>':
        a = s.value.args
        kind = ast.unparse(a[0]) if a else ''
        if kind == 'CP.QT_INPUTS' and len(a) == 3:
            cx.inp = '(QT %s %s)' % (quality(a[1]), num_expr(a[2], cx, []))
        elif kind == 'CP.PQ_INPUTS' and len(a) == 3:
            cx.inp = '(PQ %s %s)' % (num_expr(a[1], cx, []), quality(a[2]))
        else:
            fail(s, 'unsupported state.update(%s)' % kind)
        return try_body(rest, cx, result_var)
    if isinstance(s, ast.Return) and s.value is not None:
        binds = []
        e = num_expr(s.value, cx, binds)
        return wrap(binds, '(Some %s)' % e)
    if isinstance(s, ast.Raise):
        return 'None'
    if isinstance(s, ast.If) and isinstance(s.test, ast.Name) and s.test.id in cx.opt:
        # `if temp:` on an optional number: truthy = present and non-zero
        p = s.test.id
        v = cx.fresh(p)
        saved_env, saved_inp = dict(cx.env), cx.inp
        cx.env[p] = v
        then = try_body(s.body + rest, cx, result_var)
        cx.env, cx.inp = dict(saved_env), saved_inp
        els = try_body(s.orelse + rest, cx, result_var)
        cx.env, cx.inp = saved_env, saved_inp
        return '(match otruthy %s with Some %s => %s | None => %s end)' % (RENAME.get(p, p), v, then, els)
    fail(s, 'unsupported statement in try: %s' % ast.unparse(s).split('\n')[0])


def check_handler_call(call, mname, params, node):
    """self.<mname>(<the positional parameters in order>..., calculate=False)"""
    if not (isinstance(call, ast.Call) and is_self(call.func, mname)):
        fail(node, 'the fallback is not a call of the same method')
    kw = {k.arg: k.value for k in call.keywords}
    if not (isinstance(kw.get('calculate'), ast.Constant) and kw['calculate'].value is False):
        fail(node, 'the fallback does not pass calculate=False')
    for i, a in enumerate(call.args):
        if not (isinstance(a, ast.Name) and i < len(params) and a.id == params[i]):
            fail(node, 'the fallback passes other arguments than its own')
    for k, v in kw.items():
        if k != 'calculate' and not (isinstance(v, ast.Name) and v.id == k):
            fail(node, 'the fallback passes other arguments than its own')
    if 'temp' in params and not (any(isinstance(a, ast.Name) and a.id == 'temp' for a in call.args) or 'temp' in kw):
        fail(node, 'the fallback drops the temperature')


def user_part(stmts, node):
    """try: return self.get_prop("k") [* c]  except ParameterError as err: _raise_calculation_error(err)"""
    if not (len(stmts) == 1 and isinstance(stmts[0], ast.Try)):
        fail(node, 'dictionary part is not a single try')
    t = stmts[0]
    if not (len(t.body) == 1 and isinstance(t.body[0], ast.Return) and len(t.handlers) == 1 and not t.orelse and not t.finalbody):
        fail(t, 'dictionary part: unexpected shape')
    h = t.handlers[0]
    if not (isinstance(h.type, ast.Name) and h.type.id == 'ParameterError' and len(h.body) == 1
            and ast.unparse(h.body[0]) == '_raise_calculation_error(%s)' % h.name):
        fail(h, 'dictionary part: handler is not `except ParameterError: _raise_calculation_error`')
    e = t.body[0].value
    scale = None
    if isinstance(e, ast.BinOp) and isinstance(e.op, ast.Mult) and isinstance(e.right, ast.Constant):
        scale, e = e.right.value, e.left
    if not (isinstance(e, ast.Call) and is_self(e.func, 'get_prop') and len(e.args) == 1 and isinstance(e.args[0], ast.Constant)
            and isinstance(e.args[0].value, str)):
        fail(t, 'dictionary part: not self.get_prop("<key>") [* const]')
    key = e.args[0].value
    val = 'v' if scale is None else '(nmul v %s)' % qlit(scale)
    return key, 'match assoc "%s" props with Some v => Ok %s | None => Err CalculationError end' % (key, val)


def method(fn):
    name = fn.name
    params = [a.arg for a in fn.args.args[1:]]
    for p in params:
        if p not in PTYPE:
            fail(fn, 'unknown parameter %s' % p)
    if params[-1] != 'calculate':
        fail(fn, 'last parameter is not calculate')
    body = [s for s in fn.body if not (isinstance(s, ast.Expr) and isinstance(s.value, ast.Constant))]
    if not (body and isinstance(body[0], ast.If) and isinstance(body[0].test, ast.Name) and body[0].test.id == 'calculate' and not body[0].orelse):
        fail(fn, 'method does not start with `if calculate:`')
    opt = [p for p in params if PTYPE[p] == 'option N']
    # enthalpy_liquefaction has temp optional
    ptype = dict(PTYPE)
    defaults = fn.args.defaults
    ndef = len(defaults)
    for p, d in zip(params[len(params) - ndef:], defaults):
        if p == 'temp' and isinstance(d, ast.Constant) and d.value is None:
            ptype['temp'] = 'option N'
            opt.append('temp')
    key, user = user_part(body[1:], fn)
    cx = Ctx(opt)
    for p in params:
        if ptype[p] == 'N':
            cx.env[p] = p
    calc = list(body[0].body)
    pre = None
    if isinstance(calc[0], ast.If):
        s = calc[0]
        t = s.test
        if not (isinstance(t, ast.BoolOp) and isinstance(t.op, ast.And) and all(isinstance(v, ast.Name) and v.id in opt for v in t.values)
                and len(s.body) == 1 and isinstance(s.body[0], ast.Raise) and ast.unparse(s.body[0].exc.func) == 'CalculationError' and not s.orelse):
            fail(s, 'unsupported guard before the try')
        pre = ' && '.join('is_some (otruthy %s)' % v.id for v in t.values)
        calc = calc[1:]
    if not (calc and isinstance(calc[0], ast.Try)):
        fail(fn, 'no try in the calculate part')
    tr = calc[0]
    if not (len(tr.handlers) == 1 and isinstance(tr.handlers[0].type, ast.Name) and tr.handlers[0].type.id == 'BaseException'
            and not tr.orelse and not tr.finalbody):
        fail(tr, 'the calculate part must catch BaseException exactly once')
    h = tr.handlers[0].body
    if not (len(h) == 2 and ast.unparse(h[0]) == '_warn_reading_params(%s)' % tr.handlers[0].name):
        fail(tr, 'unexpected handler body')
    post = calc[1:]
    if isinstance(h[1], ast.Return):
        check_handler_call(h[1].value, name, params, h[1])
        if post:
            fail(post[0], 'statements after a returning try')
        t = try_body(list(tr.body), cx, None)
        core = 'match %s with Some r => Ok r | None => user end' % t
    elif isinstance(h[1], ast.Assign) and len(h[1].targets) == 1 and isinstance(h[1].targets[0], ast.Name):
        var = h[1].targets[0].id
        check_handler_call(h[1].value, name, params, h[1])
        t = try_body(list(tr.body), cx, var)
        # if unit is not None: var = c_unit(_PRESSURE_UNITS, var, 'Pa', unit) ; return var
        want = "if unit is not None:\n    %s = c_unit(_PRESSURE_UNITS, %s, 'Pa', unit)" % (var, var)
        if not (len(post) == 2 and ast.unparse(post[0]) == want and ast.unparse(post[1]) == 'return %s' % var):
            fail(tr, 'unexpected statements after the assigning try')
        core = ('bind (match %s with Some r => Ok r | None => user end) (fun %s => match py_unit with None => Ok %s | Some _ => '
                'c_unit N (_PRESSURE_UNITS N) %s (Some "Pa") py_unit (1)%%Z end)' % (t, var, var, var))
    else:
        fail(tr, 'unexpected handler body')
    if pre:
        core = 'if (%s) then Err CalculationError else %s' % (pre, core)
    sig = ' '.join('(%s : %s)' % (RENAME.get(p, p), ptype[p]) for p in params)
    return ('Definition %s %s : res N :=\n let user : res N := %s in\n if calculate then %s\n else user.\n' % (name, sig, user, core),
            (name, key, [(RENAME.get(p, p), ptype[p]) for p in params]))


def alias(fn, target, sigs):
    params = [a.arg for a in fn.args.args[1:]]
    body = [s for s in fn.body if not (isinstance(s, ast.Expr) and isinstance(s.value, ast.Constant))]
    want = 'return self.%s(%s)' % (target, ', '.join(params))
    if not (len(body) == 1 and ast.unparse(body[0]) == want):
        fail(fn, '%s is not a pure alias of %s' % (fn.name, target))
    tparams = [p for p, _ in sigs[target]]
    if [RENAME.get(p, p) for p in params] != tparams:
        fail(fn, '%s: parameters differ from %s' % (fn.name, target))
    sig = ' '.join('(%s : %s)' % (p, t) for p, t in sigs[target])
    return 'Definition %s %s : res N := %s %s.\n' % (fn.name, sig, target, ' '.join(tparams))


def main(src, out):
    path = os.path.join(src, 'pygaps', 'core', 'adsorbate.py')
    tree = ast.parse(open(path, encoding='utf8').read(), path)
    cls = [n for n in tree.body if isinstance(n, ast.ClassDef) and n.name == 'Adsorbate']
    if len(cls) != 1:
        raise Unsupported('class Adsorbate not found')
    fns = {n.name: n for n in cls[0].body if isinstance(n, ast.FunctionDef)}
    defs, sigs, keys = [], {}, []
    for m in METHODS:
        if m not in fns:
            raise Unsupported('method %s not found' % m)
        d, (name, key, sig) = method(fns[m])
        defs.append(d)
        sigs[name] = sig
        keys.append('("%s", "%s")' % (name, key))
    for a, t in ALIASES.items():
        if a not in fns:
            raise Unsupported('method %s not found' % a)
        defs.append(alias(fns[a], t, sigs))
    # helpers that decide what `self.backend` is: must stay as modelled (no hidden fallback)
    text = ('(* GENERATED by tools/py2v_adsmethods.py from pygaps/core/adsorbate.py -- do not edit; regenerated on every check run *)\n'
            'From Coq Require Import QArith ZArith String List Bool.\n'
            'From PG Require Import Lib.Num Lib.Py Gen.UnitsGen1 Registry.Backend.\nImport ListNotations.\nOpen Scope string_scope.\n'
            'Section Gen.\nVariable N : Num.\nVariable b : backend N.\nVariable props : list (string * N).\n'
            'Local Notation otruthy := (@otruthy N).\n\n' + '\n'.join(defs) +
            '\n(* method -> key of the properties dictionary it falls back to *)\n'
            'Definition method_keys : list (string * string) := [' + '; '.join(keys) + '].\nEnd Gen.\n')
    p = os.path.join(out, 'AdsMethodsGen.v')
    if not os.path.exists(p) or open(p).read() != text:
        open(p, 'w').write(text)


if __name__ == '__main__':
    try:
        main(sys.argv[1], sys.argv[2])
    except Unsupported as e:
        sys.stderr.write('py2v_adsmethods: unsupported: %s\n' % e)
        sys.exit(1)
